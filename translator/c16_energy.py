"""C16: fail-closed ast reading of the facts the end-to-end energy theorems depend on
(coq/props/C16/C16_energy_e2e.v) -> Gen_Energy.v

  * Elastic._Calc_Psi_Elas: how the thickness enters Wdef (2-D only / always), which
    quadrature rule it samples, Wdef_e = (thickness * wJ * psi).sum(1)
  * Elastic.Construct_local_matrix_system: K_e = LinearizedElasticity(groupElem, C) and how the
    thickness enters K_e
  * Operators.Bilinear.LinearizedElasticity / _Elastic.Calc_Psi_e_pg: default rule, psi = 1/2 sigma.eps
"""
import ast
import os

from translator.pyexpr import TranslateError

ELASTIC = "EasyFEA/Simulations/_elastic.py"
BIL = "EasyFEA/FEM/Operators/Bilinear.py"
LAWS = "EasyFEA/Models/Elastic/_laws.py"


def _parse(repo, rel):
    return ast.parse(open(os.path.join(repo, rel)).read())


def _find(node, kind, name, where):
    for n in ast.walk(node):
        if isinstance(n, kind) and n.name == name:
            return n
    raise TranslateError("%s: %s not found" % (where, name))


def _default(fn, arg, where):
    a = fn.args
    names = [x.arg for x in a.args]
    if arg not in names:
        raise TranslateError("%s: parameter %s not found" % (where, arg))
    k = names.index(arg) - (len(names) - len(a.defaults))
    if k < 0:
        raise TranslateError("%s: parameter %s has no default" % (where, arg))
    return ast.unparse(a.defaults[k])


def _thickness_rule(expr_src, where):
    e = expr_src.replace(" ", "")
    if e in ("self.material.thicknessifself.dim==2else1", "self.material.thicknessifself.dim==2else1.0",
             "1ifself.dim!=2elseself.material.thickness", "1.0ifself.dim!=2elseself.material.thickness"):
        return True
    if e == "self.material.thickness":
        return False
    raise TranslateError("%s: thickness expression `%s` not recognised" % (where, expr_src))


def translate(repo):
    res = {}
    em = _parse(repo, ELASTIC)
    cls = _find(em, ast.ClassDef, "Elastic", ELASTIC)
    # ---- _Calc_Psi_Elas
    psi = _find(cls, ast.FunctionDef, "_Calc_Psi_Elas", ELASTIC)
    w = ELASTIC + ":_Calc_Psi_Elas"
    res["wdef_rule_is_rigi"] = _default(psi, "matrixType", w) == "MatrixType.rigi"
    # partial evaluation per dimension (hoisted / renamed locals do not matter): the thickness factor is
    # read off the evaluated element energies
    from translator.peval import PEval as _PE
    rule = {}
    for d in (2, 3):
        ret, eff = _PE(em, cls, leaves={"self.dim": d}, where=w).evaluate(psi, args={"smoothedStress": False, "returnScalar": False})
        r = (ret or "").replace(" ", "")
        if eff:
            raise TranslateError("%s: unexpected side effects %r" % (w, eff[:1]))
        for need in ("self._Calc_Epsilon_e_pg(self.displacement,groupElem,matrixType)", "self.material.Calc_Psi_e_pg(Eps)",
                     "self.mesh.Get_list_groupElem(%d)" % d, ".sum(1)", "np.concatenate("):
            if need not in r:
                raise TranslateError("%s: expected `%s` in the element energies (the energy model no longer matches the source): %s" % (w, need, ret))
        if "(self.material.thickness*groupElem.Get_weightedJacobian_e_pg(matrixType)*psi).sum(1)" in r:
            rule[d] = True
        elif any(x in r for x in ("(1*groupElem.Get_weightedJacobian_e_pg(matrixType)*psi).sum(1)", "(1.0*groupElem.Get_weightedJacobian_e_pg(matrixType)*psi).sum(1)",
                                  "(groupElem.Get_weightedJacobian_e_pg(matrixType)*psi).sum(1)")):
            rule[d] = False
        else:
            raise TranslateError("%s: Wdef_e for dim %d is not (thickness * wJ * psi).sum(1): %s" % (w, d, ret))
    if rule == {2: True, 3: False}:
        res["wdef_thickness_2d_only"] = True
    elif rule == {2: True, 3: True}:
        res["wdef_thickness_2d_only"] = False
    else:
        raise TranslateError("%s: thickness rule %r not recognised" % (w, rule))
    # ---- Construct_local_matrix_system
    loc = _find(cls, ast.FunctionDef, "Construct_local_matrix_system", ELASTIC)
    w = ELASTIC + ":Construct_local_matrix_system"
    src = ast.unparse(loc).replace(" ", "").replace("\n", "")
    if "K_e=Operators.Bilinear.LinearizedElasticity(groupElem,self.material.C)" not in src:
        raise TranslateError("%s: K_e is not LinearizedElasticity(groupElem, self.material.C)" % w)
    rule = None
    for n in ast.walk(loc):
        if isinstance(n, ast.If) and ast.unparse(n.test).replace(" ", "") == "self.dim==2":
            body = [ast.unparse(s).replace(" ", "") for s in n.body]
            if ("K_e*=thickness" in body and "thickness=self.material.thickness" in body) or "K_e*=self.material.thickness" in body:
                rule = True
    if rule is None:
        top = [ast.unparse(s).replace(" ", "") for s in ast.walk(loc) if isinstance(s, ast.AugAssign)]
        if "K_e*=self.material.thickness" in top or "K_e*=thickness" in top:
            rule = False if not any(isinstance(n, ast.If) and "dim" in ast.unparse(n.test) for n in ast.walk(loc)) else None
    if rule is None:
        raise TranslateError("%s: how the thickness enters K_e is not recognised" % w)
    res["ke_thickness_2d_only"] = rule
    # ---- LinearizedElasticity
    bm = _parse(repo, BIL)
    le = _find(bm, ast.FunctionDef, "LinearizedElasticity", BIL)
    res["ke_rule_is_rigi"] = _default(le, "matrixType", BIL + ":LinearizedElasticity") == "MatrixType.rigi"
    src = ast.unparse(le).replace(" ", "").replace("\n", "")
    for need in ("leftDispPart_e_pg=groupElem.Get_leftDispPart_e_pg(matrixType)", "B_e_pg=groupElem.Get_B_e_pg(matrixType)",
                 "returneinsum('epij,epjk->eik',leftDispPart_e_pg@C,B_e_pg)"):
        if need not in src:
            raise TranslateError("%s:LinearizedElasticity: expected `%s`" % (BIL, need))
    # ---- psi = 1/2 sigma . eps
    lm = _parse(repo, LAWS)
    cp = _find(lm, ast.FunctionDef, "Calc_Psi_e_pg", LAWS)
    rets = [ast.unparse(n.value).replace(" ", "") for n in ast.walk(cp) if isinstance(n, ast.Return) and n.value is not None]
    ok = rets and rets[-1] in ("1/2*(Sigma_e_pg@Epsilon_e_pg)", "0.5*(Sigma_e_pg@Epsilon_e_pg)", "(Sigma_e_pg@Epsilon_e_pg)/2", "1/2*(Epsilon_e_pg@Sigma_e_pg)")
    src = ast.unparse(cp).replace(" ", "")
    res["psi_is_half_sigma_eps"] = bool(ok and "Sigma_e_pg=self.Calc_Sigma_e_pg(Epsilon_e_pg)" in src)
    if not res["psi_is_half_sigma_eps"]:
        raise TranslateError("%s:Calc_Psi_e_pg is not 1/2 * (Sigma @ Epsilon) with Sigma = Calc_Sigma_e_pg(Epsilon): %s" % (LAWS, rets))
    # ---- strain / stress arrays (partial evaluation: layout of the code does not matter)
    from translator.peval import PEval
    lcls = _find(lm, ast.ClassDef, "_Elastic", LAWS)
    ret, eff = PEval(lm, lcls, where=LAWS + ":Calc_Epsilon_e_pg").evaluate(_find(lcls, ast.FunctionDef, "Calc_Epsilon_e_pg", LAWS))
    res["eps_is_B_u"] = (not eff) and (ret or "").replace(" ", "") == "groupElem.Get_B_e_pg(matrixType)@groupElem.Locates_sol_e(sol,asFeArray=True)"
    if not res["eps_is_B_u"]:
        raise TranslateError("%s:Calc_Epsilon_e_pg is not Get_B_e_pg(matrixType) @ Locates_sol_e(sol): %s %r" % (LAWS, ret, eff[:1]))
    ret, eff = PEval(lm, lcls, where=LAWS + ":Calc_Sigma_e_pg").evaluate(_find(lcls, ast.FunctionDef, "Calc_Sigma_e_pg", LAWS))
    got = (ret or "").replace(" ", "")
    eps = "FeArray.asfearray(Epsilon_e_pg)"
    okv = ["(FeArray.broadcast(self.C,%s.shape[:2][0],%s.shape[:2][1],tensor_ndim=2)ifself.isHeterogeneouselseFeArray.asfearray(self.C,True))@%s" % (eps, eps, eps),
           "FeArray.asfearray(self.C,True)@%s" % eps]
    res["sigma_is_C_eps"] = (not eff) and got in okv
    if not res["sigma_is_C_eps"]:
        raise TranslateError("%s:Calc_Sigma_e_pg is not C @ Epsilon: %s" % (LAWS, ret))
    for mname, want in (("_Calc_Epsilon_e_pg", "self.material.Calc_Epsilon_e_pg(u,"), ("_Calc_Sigma_e_pg", "self.material.Calc_Sigma_e_pg(")):
        ret, eff = PEval(em, cls, where=ELASTIC + ":" + mname).evaluate(_find(cls, ast.FunctionDef, mname, ELASTIC))
        if want not in (ret or "").replace(" ", ""):
            raise TranslateError("%s:%s does not delegate to the material law: %s" % (ELASTIC, mname, ret))
    # ---- B layout of Get_B_e_pg (shared reader of translator/c13_builtins.py)
    from translator import c13_builtins as T_bi
    res["B"] = T_bi.b_layout(T_bi.Ev(repo))
    return res


def emit_coq(res):
    from translator import c13_builtins as T_bi
    b = lambda x: "true" if x else "false"
    return "\n".join(["(* GENERATED by translator/c16_energy.py -- do not edit *)", "From Coq Require Import Reals.", "Open Scope R_scope."] + T_bi.bcol_coq(res["B"]) +
                     ["Definition %s : bool := %s." % (k, b(res[k])) for k in
                      ("wdef_thickness_2d_only", "ke_thickness_2d_only", "wdef_rule_is_rigi", "ke_rule_is_rigi", "psi_is_half_sigma_eps", "eps_is_B_u", "sigma_is_C_eps")] + [""])


if __name__ == "__main__":
    import sys
    r = translate(sys.argv[1] if len(sys.argv) > 1 else "/repo")
    print(r)
