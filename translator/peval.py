"""Small symbolic partial evaluator for straight-line numerical Python (ast only, fail-closed).

Used by the C13 translators to reduce a function to a canonical *effect tree* that does not
depend on how the code is laid out:

  * every local name is replaced by the expression it denotes (so renaming, hoisting a
    loop-invariant sub-expression, naming a sub-expression, folding temporaries do not matter);
  * local closures, private module-level helpers and private methods are inlined at the call;
  * configuration leaves given by the caller (e.g. ``self.dim`` = 2) are concrete, so tests on
    them are decided and only the taken branch remains; tests that stay symbolic produce an
    ``if`` node (value-level: a conditional expression);
  * ``x is None`` is decided for values that cannot be None (everything except the leaves the
    caller declares optional);
  * early returns are handled by continuing the evaluation in each branch;
  * loops over symbolic iterables are executed once with the loop variable renamed by depth.

Values: python constants / tuples / lists / dicts of values, or ``Sym(ast expression)``.
Effects (in order): ("call", text) | ("store", base, index, value) | ("for", var, iter, effects)
| ("if", test, effects_then, effects_else).  `evaluate` returns (return value text, effects)."""
import ast
import copy

from translator.pyexpr import TranslateError


class Sym:
    def __init__(self, node):
        self.node = node

    def text(self):
        return ast.unparse(ast.fix_missing_locations(copy.deepcopy(self.node)))


def to_ast(v):
    if isinstance(v, Sym):
        return copy.deepcopy(v.node)
    if isinstance(v, tuple):
        return ast.Tuple(elts=[to_ast(x) for x in v], ctx=ast.Load())
    if isinstance(v, list):
        return ast.List(elts=[to_ast(x) for x in v], ctx=ast.Load())
    if isinstance(v, dict):
        return ast.Dict(keys=[to_ast(k) for k in v], values=[to_ast(x) for x in v.values()])
    if isinstance(v, Closure):
        return ast.Name(id="<closure %s>" % v.fn.name, ctx=ast.Load())
    return ast.Constant(v)


def text(v):
    return ast.unparse(ast.fix_missing_locations(to_ast(v)))


def is_concrete(v):
    if isinstance(v, (Sym, Closure)):
        return False
    if isinstance(v, (tuple, list)):
        return all(is_concrete(x) for x in v)
    if isinstance(v, dict):
        return all(is_concrete(x) for x in v.values())
    return True


class Closure:
    def __init__(self, fn, env, is_method=False):
        self.fn, self.env, self.is_method = fn, env, is_method


class _Ret(Exception):
    def __init__(self, v):
        self.v = v


IGNORED_CALLS = ("tic.Tac", "Tic", "Terminal.MyPrint", "Terminal.MyPrintError", "print")


class PEval:
    def __init__(self, module, cls=None, leaves=None, optional=(), where="", post=None, max_inline=40):
        self.module, self.cls = module, cls
        self.leaves = dict(leaves or {})        # source text -> concrete value
        self.optional = tuple(optional)         # source texts of leaves that may be None
        self.where = where
        self.post = post                        # optional ast.NodeTransformer applied to every printed expression
        self.max_inline = max_inline
        self.depth = 0

    # ------------------------------------------------------------------ helpers
    def err(self, node, msg):
        raise TranslateError("%s:%s: %s: %s" % (self.where, getattr(node, "lineno", "?"), msg, ast.unparse(node)[:90]))

    def show(self, v):
        n = ast.fix_missing_locations(to_ast(v))
        if self.post is not None:
            n = ast.fix_missing_locations(self.post.visit(n))
        return ast.unparse(n)

    def module_fn(self, name):
        for n in self.module.body:
            if isinstance(n, ast.FunctionDef) and n.name == name:
                return n
        return None

    def method(self, name):
        if self.cls is None:
            return None
        for n in self.cls.body:
            if isinstance(n, ast.FunctionDef) and n.name == name:
                return n
        return None

    # ------------------------------------------------------------------ entry
    def evaluate(self, fn, args=None, is_method=True):
        env = {}
        names = [a.arg for a in fn.args.args]
        if is_method and names and names[0] == "self":
            names = names[1:]
        for k, nm in enumerate(names):
            env[nm] = (args or {}).get(nm, Sym(ast.Name(id=nm, ctx=ast.Load())))
        eff = []
        val = self.block(list(fn.body), env, eff, 0)
        return (None if val is _NORET else self.show(val)), eff

    # ------------------------------------------------------------------ statements
    def block(self, stmts, env, eff, ld):
        """executes stmts; returns the returned value or _NORET"""
        for k, s in enumerate(stmts):
            if isinstance(s, ast.Expr):
                if isinstance(s.value, ast.Constant):
                    continue
                if isinstance(s.value, ast.Call) and ast.unparse(s.value.func) in IGNORED_CALLS:
                    continue
                self._inlined_node = None
                v = self.ev(s.value, env, eff, ld)
                if isinstance(s.value, ast.Call) and self._inlined_node is not s.value:
                    eff.append(("call", self.show(v)))
            elif isinstance(s, ast.Assign):
                v = self.ev(s.value, env, eff, ld)
                for t in s.targets:
                    self.assign(t, v, env, eff, ld)
            elif isinstance(s, ast.AnnAssign):
                if s.value is not None:
                    self.assign(s.target, self.ev(s.value, env, eff, ld), env, eff, ld)
            elif isinstance(s, ast.AugAssign):
                cur = self.ev(_load(s.target), env, eff, ld)
                new = self.binop(cur, s.op, self.ev(s.value, env, eff, ld))
                if isinstance(s.target, ast.Name):
                    env[s.target.id] = new
                else:
                    self.assign(s.target, new, env, eff, ld)
            elif isinstance(s, ast.Return):
                return None if s.value is None else self.ev(s.value, env, eff, ld)
            elif isinstance(s, (ast.Assert, ast.Pass)):
                continue
            elif isinstance(s, ast.FunctionDef):
                env[s.name] = Closure(s, env)
            elif isinstance(s, ast.If):
                t = self.ev(s.test, env, eff, ld)
                rest = stmts[k + 1:]
                if is_concrete(t):
                    return self.block((s.body if t else s.orelse) + rest, env, eff, ld)
                if not _has_return(s.body) and not _has_return(s.orelse):
                    # no early return: run both branches and merge the bindings as conditional values
                    ea, eb, enva, envb = [], [], dict(env), dict(env)
                    self.block(list(s.body), enva, ea, ld)
                    self.block(list(s.orelse), envb, eb, ld)
                    if ea or eb:
                        eff.append(("if", self.show(t), tuple(ea), tuple(eb)))
                    unb = Sym(ast.Name(id="<unbound>", ctx=ast.Load()))
                    for nm in list(dict.fromkeys(list(enva) + list(envb))):
                        a, b = enva.get(nm, unb), envb.get(nm, unb)
                        if isinstance(a, Closure) or isinstance(b, Closure):
                            env[nm] = a if isinstance(a, Closure) else b
                        elif a is b or text(a) == text(b):
                            env[nm] = a
                        else:
                            env[nm] = Sym(ast.IfExp(test=to_ast(t), body=to_ast(a), orelse=to_ast(b)))
                    continue
                ea, eb, enva, envb = [], [], dict(env), dict(env)
                va = self.block(list(s.body) + rest, enva, ea, ld)
                vb = self.block(list(s.orelse) + rest, envb, eb, ld)
                if ea or eb:
                    eff.append(("if", self.show(t), tuple(ea), tuple(eb)))
                if va is _NORET and vb is _NORET:
                    return _NORET
                if va is _NORET or vb is _NORET:
                    self.err(s, "a branch returns and the other falls through")
                if text(va) == text(vb):
                    return va
                return Sym(ast.IfExp(test=to_ast(t), body=to_ast(va), orelse=to_ast(vb)))
            elif isinstance(s, ast.For):
                if s.orelse or not isinstance(s.target, ast.Name):
                    self.err(s, "loop shape")
                it = self.ev(s.iter, env, eff, ld)
                sub = []
                e2 = dict(env)
                e2[s.target.id] = Sym(ast.Name(id="_L%d" % ld, ctx=ast.Load()))
                r = self.block(list(s.body), e2, sub, ld + 1)
                if r is not _NORET:
                    self.err(s, "return inside a loop")
                eff.append(("for", "_L%d" % ld, self.show(it), tuple(sub)))
                # names (re)bound in the loop body are visible afterwards
                for nm, v in e2.items():
                    if nm != s.target.id:
                        env[nm] = v
            elif isinstance(s, ast.Raise):
                eff.append(("raise", ast.unparse(s)[:60]))
                return Sym(ast.Name(id="<raise>", ctx=ast.Load()))
            else:
                self.err(s, "statement %s" % type(s).__name__)
        return _NORET

    def assign(self, t, v, env, eff, ld):
        if isinstance(t, ast.Name):
            env[t.id] = v
        elif isinstance(t, (ast.Tuple, ast.List)):
            if isinstance(v, (tuple, list)) and len(v) == len(t.elts):
                for e, x in zip(t.elts, v):
                    self.assign(e, x, env, eff, ld)
            elif isinstance(v, Sym):
                for k, e in enumerate(t.elts):
                    self.assign(e, Sym(ast.Subscript(value=to_ast(v), slice=ast.Constant(k), ctx=ast.Load())), env, eff, ld)
            else:
                self.err(t, "unpacking")
        elif isinstance(t, ast.Subscript):
            base = self.ev(t.value, env, eff, ld)
            idx = self.ev_slice(t.slice, env, eff, ld)
            if isinstance(base, dict) and is_concrete(idx):
                base[idx] = v
                return
            eff.append(("store", self.show(base), self.show(idx) if not isinstance(idx, str) else idx, self.show(v)))
        elif isinstance(t, ast.Attribute):
            eff.append(("setattr", self.show(self.ev(t.value, env, eff, ld)), t.attr, self.show(v)))
        else:
            self.err(t, "assignment target")

    # ------------------------------------------------------------------ expressions
    def ev_slice(self, sl, env, eff, ld):
        """index expression -> Sym of the substituted slice (kept as an ast)"""
        new = self.subst(sl, env, eff, ld)
        return Sym(new)

    def subst(self, n, env, eff, ld):
        """ast with every sub-expression evaluated and re-embedded"""
        if isinstance(n, ast.Slice):
            return ast.Slice(lower=None if n.lower is None else to_ast(self.ev(n.lower, env, eff, ld)),
                             upper=None if n.upper is None else to_ast(self.ev(n.upper, env, eff, ld)),
                             step=None if n.step is None else to_ast(self.ev(n.step, env, eff, ld)))
        if isinstance(n, ast.Tuple) and any(isinstance(e, ast.Slice) for e in n.elts):
            return ast.Tuple(elts=[self.subst(e, env, eff, ld) for e in n.elts], ctx=ast.Load())
        return to_ast(self.ev(n, env, eff, ld))

    def binop(self, a, op, b):
        if is_concrete(a) and is_concrete(b) and not isinstance(a, (list, dict)) and not isinstance(b, (list, dict)):
            try:
                return {ast.Add: lambda: a + b, ast.Sub: lambda: a - b, ast.Mult: lambda: a * b, ast.Div: lambda: a / b,
                        ast.FloorDiv: lambda: a // b, ast.Mod: lambda: a % b, ast.Pow: lambda: a ** b}[type(op)]()
            except (KeyError, TypeError, ZeroDivisionError):
                pass
        return Sym(ast.BinOp(left=to_ast(a), op=op, right=to_ast(b)))

    def ev(self, n, env, eff, ld):
        src = ast.unparse(n)
        if src in self.leaves:
            return self.leaves[src]
        if isinstance(n, ast.Constant):
            return n.value
        if isinstance(n, ast.Name):
            if n.id in env:
                return env[n.id]
            return Sym(ast.Name(id=n.id, ctx=ast.Load()))
        if isinstance(n, ast.Tuple):
            return tuple(self.ev(e, env, eff, ld) for e in n.elts)
        if isinstance(n, ast.List):
            return [self.ev(e, env, eff, ld) for e in n.elts]
        if isinstance(n, ast.Dict):
            ks = [self.ev(k, env, eff, ld) for k in n.keys]
            vs = [self.ev(v, env, eff, ld) for v in n.values]
            if all(is_concrete(k) for k in ks):
                return dict(zip(ks, vs))
            return Sym(ast.Dict(keys=[to_ast(k) for k in ks], values=[to_ast(v) for v in vs]))
        if isinstance(n, ast.Attribute):
            base = self.ev(n.value, env, eff, ld)
            v = Sym(ast.Attribute(value=to_ast(base), attr=n.attr, ctx=ast.Load()))
            t = v.text()
            if t in self.leaves:
                return self.leaves[t]
            return v
        if isinstance(n, ast.Subscript):
            base = self.ev(n.value, env, eff, ld)
            if not isinstance(n.slice, (ast.Slice, ast.Tuple)):
                k = self.ev(n.slice, env, eff, ld)
                if isinstance(base, (tuple, list, dict, str)) and is_concrete(k):
                    try:
                        return base[k]
                    except (KeyError, IndexError, TypeError):
                        self.err(n, "constant subscript")
                return Sym(ast.Subscript(value=to_ast(base), slice=to_ast(k), ctx=ast.Load()))
            return Sym(ast.Subscript(value=to_ast(base), slice=self.subst(n.slice, env, eff, ld), ctx=ast.Load()))
        if isinstance(n, ast.BinOp):
            return self.binop(self.ev(n.left, env, eff, ld), n.op, self.ev(n.right, env, eff, ld))
        if isinstance(n, ast.UnaryOp):
            v = self.ev(n.operand, env, eff, ld)
            if is_concrete(v):
                if isinstance(n.op, ast.Not):
                    return not v
                if isinstance(n.op, ast.USub):
                    return -v
                if isinstance(n.op, ast.UAdd):
                    return +v
            return Sym(ast.UnaryOp(op=n.op, operand=to_ast(v)))
        if isinstance(n, ast.BoolOp):
            vals = [self.ev(e, env, eff, ld) for e in n.values]
            if all(is_concrete(v) for v in vals):
                r = vals[0]
                for v in vals[1:]:
                    r = (r and v) if isinstance(n.op, ast.And) else (r or v)
                return r
            # drop decided operands
            keep = []
            for v in vals:
                if is_concrete(v):
                    if isinstance(n.op, ast.And) and not v:
                        return False
                    if isinstance(n.op, ast.Or) and v:
                        return True
                    continue
                keep.append(v)
            return keep[0] if len(keep) == 1 else Sym(ast.BoolOp(op=n.op, values=[to_ast(v) for v in keep]))
        if isinstance(n, ast.Compare) and len(n.ops) == 1:
            a, b = self.ev(n.left, env, eff, ld), self.ev(n.comparators[0], env, eff, ld)
            op = n.ops[0]
            if isinstance(op, (ast.Is, ast.IsNot)) and (a is None or b is None):
                other = b if a is None else a
                if other is None:
                    return isinstance(op, ast.Is)
                if is_concrete(other) or not self.may_be_none(other):
                    return isinstance(op, ast.IsNot)
            elif is_concrete(a) and is_concrete(b):
                try:
                    return {ast.Eq: lambda: a == b, ast.NotEq: lambda: a != b, ast.Lt: lambda: a < b, ast.LtE: lambda: a <= b,
                            ast.Gt: lambda: a > b, ast.GtE: lambda: a >= b, ast.In: lambda: a in b, ast.NotIn: lambda: a not in b}[type(op)]()
                except (KeyError, TypeError):
                    pass
            return Sym(ast.Compare(left=to_ast(a), ops=[op], comparators=[to_ast(b)]))
        if isinstance(n, ast.IfExp):
            t = self.ev(n.test, env, eff, ld)
            if is_concrete(t):
                return self.ev(n.body if t else n.orelse, env, eff, ld)
            return Sym(ast.IfExp(test=to_ast(t), body=to_ast(self.ev(n.body, env, eff, ld)), orelse=to_ast(self.ev(n.orelse, env, eff, ld))))
        if isinstance(n, ast.Call):
            return self.call(n, env, eff, ld)
        if isinstance(n, ast.JoinedStr):
            return Sym(ast.Constant("<fstring>"))
        if isinstance(n, (ast.ListComp, ast.GeneratorExp, ast.Lambda, ast.Starred, ast.DictComp, ast.SetComp)):
            # kept as text with the free names substituted where they are plain Names bound to values
            return Sym(_SubstNames(self, env).visit(copy.deepcopy(n)))
        self.err(n, "expression %s" % type(n).__name__)

    def may_be_none(self, v):
        """only the leaves the caller declares optional can be None; an IfExp can if a branch can"""
        if isinstance(v, Sym) and isinstance(v.node, ast.IfExp):
            return any(isinstance(b, ast.Constant) and b.value is None or ast.unparse(b) in self.optional for b in (v.node.body, v.node.orelse))
        return text(v) in self.optional

    def call(self, n, env, eff, ld):
        f = n.func
        fsrc = ast.unparse(f)
        target = None
        if isinstance(f, ast.Name):
            if isinstance(env.get(f.id), Closure):
                target = env[f.id]
            elif f.id.startswith("_") and self.module_fn(f.id) is not None:
                target = Closure(self.module_fn(f.id), {})
        elif isinstance(f, ast.Attribute) and isinstance(f.value, ast.Name) and f.value.id == "self" and f.attr.startswith("_"):
            m = self.method(f.attr)
            if m is not None and sum(1 for _ in ast.walk(m)) < 400 and not any(
                    isinstance(d, ast.Name) and d.id in ("property", "cache_computed_values") or isinstance(d, ast.Attribute) for d in m.decorator_list):
                target = Closure(m, {}, is_method=True)
        args = [self.ev(a, env, eff, ld) for a in n.args]
        kw = {k.arg: self.ev(k.value, env, eff, ld) for k in n.keywords if k.arg is not None}
        if target is not None and self.depth < 6 and len(target.fn.body) <= self.max_inline:
            fn = target.fn
            a = fn.args
            if not (a.vararg or a.kwarg or a.posonlyargs or a.kwonlyargs):
                names = [x.arg for x in a.args]
                if names and names[0] == "self" and (target.is_method or any(isinstance(d, ast.Name) and d.id == "staticmethod" for d in fn.decorator_list) is False and target.is_method):
                    names = names[1:]
                e2 = dict(target.env)
                nd = len(a.defaults)
                ok = True
                for k, nm in enumerate(names):
                    if k < len(args):
                        e2[nm] = args[k]
                    elif nm in kw:
                        e2[nm] = kw[nm]
                    elif k >= len(names) - nd:
                        e2[nm] = self.ev(a.defaults[k - (len(names) - nd)], e2, eff, ld)
                    else:
                        ok = False
                if ok and all(k in names for k in kw):
                    self.depth += 1
                    r = self.block(list(fn.body), e2, eff, ld)
                    self.depth -= 1
                    self._inlined_node = n
                    return None if r is _NORET else r
        # concrete builtins
        if fsrc in ("len", "range", "int", "float", "min", "max", "abs") and all(is_concrete(x) for x in args) and not kw:
            try:
                r = {"len": len, "range": lambda *x: list(range(*x)), "int": int, "float": float, "min": min, "max": max, "abs": abs}[fsrc](*args)
                return r
            except (TypeError, ValueError):
                pass
        fn_ast = to_ast(self.ev(f, env, eff, ld)) if not isinstance(f, ast.Name) or f.id in env else ast.Name(id=f.id, ctx=ast.Load())
        return Sym(ast.Call(func=fn_ast, args=[to_ast(x) for x in args],
                            keywords=[ast.keyword(arg=k, value=to_ast(v)) for k, v in sorted(kw.items())]))


class _SubstNames(ast.NodeTransformer):
    def __init__(self, pe, env):
        self.pe, self.env = pe, env

    def visit_Name(self, n):
        if isinstance(n.ctx, ast.Load) and n.id in self.env and not isinstance(self.env[n.id], Closure):
            return to_ast(self.env[n.id])
        return n


def _has_return(stmts):
    for st in stmts:
        for n in ast.walk(st):
            if isinstance(n, ast.Return):
                return True
            if isinstance(n, ast.FunctionDef):
                break
    return False


def _load(t):
    t = copy.deepcopy(t)
    for n in ast.walk(t):
        if hasattr(n, "ctx"):
            n.ctx = ast.Load()
    return t


class _NoRet:
    def __repr__(self):
        return "<no return>"


_NORET = _NoRet()
