"""Gauss tables: the running implementation's tables (dumped by corr/impl_gauss.py as exact
integer ratios of the doubles) -> Gen_Gauss.v.  The tie to the code is direct: these ARE the
numbers Gauss(elemType, matrixType) returns in ctx.repo."""
from fractions import Fraction as F


def q(r):
    n, d = int(r[0]), int(r[1])
    return "((-%d)#%d)" % (-n, d) if n < 0 else "(%d#%d)" % (n, d)


def fr(r):
    return F(int(r[0]), int(r[1]))


def rule_name(sh, n):
    return "r_%s_%d" % (sh, n)


def emit_coq(dump):
    L = ["(* GENERATED from the tables returned by EasyFEA.FEM._gauss.Gauss in the checked tree — do not edit *)",
         "From Coq Require Import QArith List String.",
         "From EFLib Require Import QuadDefs.",
         "Import ListNotations.", "Open Scope string_scope."]
    names = []
    for r in dump["rules"]:
        nm = rule_name(r["shape"], r["npg"])
        L.append("Definition %s : rule := {| rshape := %s; rnpg := %d%%nat; rdoc := [%s]%%nat;\n  rpts := [%s];\n  rw := [%s] |}." % (
            nm, r["shape"], r["npg"], "; ".join(str(x) for x in r["doc"]),
            ";\n    ".join("[" + "; ".join(q(x) for x in p) + "]" for p in r["pts"]),
            "; ".join(q(w) for w in r["w"])))
        names.append(nm)
    L.append("Definition all_rules : list rule := [%s]." % "; ".join(names))
    L.append("Definition factory : list (string * string * rule) := [%s]." % ";\n  ".join(
        "(\"%s\", \"%s\", %s)" % (f["elem"], f["matrix"], rule_name(f["shape"], f["npg"])) for f in dump["factory"]))
    return "\n".join(L) + "\n"


def factory_consistency(dump):
    """every factory table must be bit-identical to the per-count table of its shape"""
    tabs = {(r["shape"], r["npg"]): r for r in dump["rules"]}
    bad = []
    for f in dump["factory"]:
        r = tabs.get((f["shape"], f["npg"]))
        if r is None:
            bad.append("%s/%s selects %d points: not a tabulated count for %s" % (f["elem"], f["matrix"], f["npg"], f["shape"]))
        elif r["pts"] != f["pts"] or r["w"] != f["w"]:
            bad.append("%s/%s: table differs from %s(%d)" % (f["elem"], f["matrix"], f["shape"], f["npg"]))
    return bad
