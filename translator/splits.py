"""C17 translator: EasyFEA/Models/_phasefield.py (+ Simulations/_phasefield.py) -> Gen_Splits.v.

Fail-closed symbolic execution (python `ast`, nothing is imported from EasyFEA) of

  * every split branch of `Calc_C` (`__Split_Bourdin/_Amor/_Strain/_Stress/_He`) for each
    configuration (split, dim, planeStress, heterogeneous): the returned pair (cP, cM) as a term
    of the abstract matrix algebra `EFLib.C17_MatAlg` over named atoms
        matrices : C S sqrtC inv_sqrtC IxI projP projM projPt projMt      scalars : lamb mu bulk E v Rp Rm dim
    (`s * M`, `M * s`, `M / s` become `sc s * M`; `@` is the product, `.T` the transpose,
     `np.eye(..)` is 1, `np.zeros_like(..)` is 0; intermediate names are inlined);
  * `__Rp_Rm` (trace and the two sign formulas);
  * the 2-D branch of `_Eigen_values_vectors_projectors` (delta, the two eigenvalues, the
    generic projector formula, the degenerate initialisation, the branch test) entrywise over R;
  * the 3-D "three distinct eigenvalues" Sylvester formulas for M1, M3 and `M2 = I - (M1 + M3)`;
  * `Get_r_e_pg`, `Get_f_e_pg`, `Get_g_e_pg` (reaction, source, degradation) per regularisation;
  * the history update of `__Calc_psiPlus_e_pg`, the `HistoryDamage` maximum in `Solve`, the lower
    bound of `Get_lb_ub` (statement templates; any other shape is a TranslateError).

Anything not recognised raises TranslateError (the check then reports the property as no longer
shown).  Scalar factors of a scalar*matrix chain are emitted in a canonical order (constants,
then names alphabetically, Rp/Rm last) - justified by commutativity of numpy scalar broadcasting.
"""
import ast
import os
import re
from fractions import Fraction

from translator.pyexpr import TranslateError

SPLITS = ["Bourdin", "Amor", "Miehe", "He", "Stress", "Zhang",
          "AnisotStrain", "AnisotStrain_PM", "AnisotStrain_MP", "AnisotStrain_NoCross",
          "AnisotStress", "AnisotStress_PM", "AnisotStress_MP", "AnisotStress_NoCross"]
ISO_ONLY = ["Amor", "Miehe", "Stress"]

MAT_ATOMS = ["C", "S", "sqrtC", "inv_sqrtC", "IxI", "projP", "projM", "projPt", "projMt"]
SC_ATOMS = ["lamb", "mu", "bulk", "E", "v", "Rp", "Rm", "dim"]


# ----------------------------------------------------------------------------------------
# term language
#   scalar : ('c', Fraction) ('s', name) ('+',a,b) ('-',a,b) ('*',a,b) ('/',a,b) ('neg',a)
#            ('pow',a,n) ('fn', name, a)         fn in sqrt abs sign
#   matrix : ('A', name) ('one',) ('zero',) ('add',a,b) ('sub',a,b) ('mul',a,b) ('tp',a)
#            ('smul', scalar, m) ('mneg', a)
#   vector : ('V', name)             other python values: ('py', value) ('obj', name)
# ----------------------------------------------------------------------------------------
def is_sc(t):
    return t[0] in ('c', 's', '+', '-', '*', '/', 'neg', 'pow', 'fn')


def is_mat(t):
    return t[0] in ('A', 'one', 'zero', 'add', 'sub', 'mul', 'tp', 'smul', 'mneg')


def sc_coq(t):
    k = t[0]
    if k == 'c':
        f = t[1]
        if f.denominator == 1:
            return "%d" % f.numerator if f.numerator >= 0 else "(- %d)" % (-f.numerator)
        return "(%d / %d)" % (f.numerator, f.denominator)
    if k == 's':
        return t[1]
    if k == 'neg':
        return "(- %s)" % sc_coq(t[1])
    if k == 'pow':
        return "(%s ^ %d)" % (sc_coq(t[1]), t[2])
    if k == 'fn':
        return "(%s %s)" % ({"sqrt": "sqrt", "abs": "Rabs", "sign": "sgn", "cos": "cos", "arccos": "acos"}[t[1]], sc_coq(t[2]))
    return "(%s %s %s)" % (sc_coq(t[1]), k, sc_coq(t[2]))


def _sc_key(t):
    if t[0] == 'c':
        return (0, str(t[1]))
    if t[0] == 's' and t[1] in ("Rp", "Rm"):
        return (3, t[1])
    if t[0] == 's':
        return (1, t[1])
    return (2, sc_coq(t))


def _flat_sc(t):
    if t[0] == '*':
        return _flat_sc(t[1]) + _flat_sc(t[2])
    return [t]


def mat_coq(t):
    k = t[0]
    if k == 'A':
        return "(%s e)" % t[1]
    if k == 'one':
        return "1"
    if k == 'zero':
        return "0"
    if k == 'tp':
        return "(tp %s)" % mat_coq(t[1])
    if k == 'mneg':
        return "(- %s)" % mat_coq(t[1])
    if k in ('add', 'sub', 'mul'):
        return "(%s %s %s)" % (mat_coq(t[1]), {'add': '+', 'sub': '-', 'mul': '*'}[k], mat_coq(t[2]))
    if k == 'smul':
        facs = []
        m = t
        while m[0] == 'smul':
            facs += _flat_sc(m[1])
            m = m[2]
        facs.sort(key=_sc_key)
        s = mat_coq(m)
        for f in reversed(facs):
            s = "(sc %s * %s)" % (_sc_arg(f), s)
        return s
    raise TranslateError("mat_coq: %r" % (t,))


def _sc_arg(f):
    if f[0] == 's':
        return "(%s e)" % f[1]
    return "(%s)" % sc_coq(_with_env(f))


def _with_env(t):
    """scalar names inside a compound scalar expression are fields of the record `e`."""
    if t[0] == 's':
        return ('s', "%s e" % t[1])
    if t[0] in ('c',):
        return t
    if t[0] in ('neg',):
        return ('neg', _with_env(t[1]))
    if t[0] == 'pow':
        return ('pow', _with_env(t[1]), t[2])
    if t[0] == 'fn':
        return ('fn', t[1], _with_env(t[2]))
    return (t[0], _with_env(t[1]), _with_env(t[2]))


# ----------------------------------------------------------------------------------------
# symbolic executor for the split methods
# ----------------------------------------------------------------------------------------
class Ret(Exception):
    def __init__(self, v):
        self.v = v


class SplitExec:
    def __init__(self, methods, cfg, fname):
        self.m = methods
        self.cfg = cfg          # dict(split, dim, planeStress, hetero)
        self.fname = fname

    def err(self, node, msg):
        raise TranslateError("%s:%d: %s [%s]" % (self.fname, getattr(node, "lineno", 0), msg,
                                                 ast.unparse(node)[:120] if node is not None else ""))

    # ---- python-valued conditions ------------------------------------------------------
    def cond(self, n, env):
        if isinstance(n, ast.BoolOp):
            vals = [self.cond(v, env) for v in n.values]
            return all(vals) if isinstance(n.op, ast.And) else any(vals)
        if isinstance(n, ast.UnaryOp) and isinstance(n.op, ast.Not):
            return not self.cond(n.operand, env)
        if isinstance(n, ast.Compare) and len(n.ops) == 1:
            a, b = self.pyval(n.left, env), self.pyval(n.comparators[0], env)
            op = n.ops[0]
            if isinstance(op, ast.Eq):
                return a == b
            if isinstance(op, ast.NotEq):
                return a != b
            if isinstance(op, ast.In):
                return a in b
            self.err(n, "comparison operator")
        v = self.pyval(n, env)
        if isinstance(v, bool):
            return v
        self.err(n, "condition is not a known boolean")

    def pyval(self, n, env):
        s = ast.unparse(n)
        c = self.cfg
        if s in ("self.split",):
            return c["split"]
        if s.startswith("self.SplitType.") or s.startswith("PhaseField.SplitType."):
            name = s.split(".")[-1]
            if name not in SPLITS:
                self.err(n, "unknown split name")
            return name
        if isinstance(n, ast.Constant) and isinstance(n.value, (str, int)):
            return n.value
        if s in ("dim", "self.dim", "material.dim", "self.__material.dim"):
            if s == "dim" and ("py", c["dim"]) != env.get("dim", ("py", c["dim"])):
                self.err(n, "dim rebound")
            return c["dim"]
        if s in ("material.planeStress", "self.__material.planeStress"):
            return c["planeStress"]
        if s in ("material.isHeterogeneous", "self.isHeterogeneous", "self.__material.isHeterogeneous"):
            return c["hetero"]
        if s == "verif":
            return False
        self.err(n, "unsupported python value")

    # ---- expressions ---------------------------------------------------------------------
    def ev(self, n, env):
        c = self.cfg
        s = ast.unparse(n)
        if isinstance(n, ast.Constant):
            if isinstance(n.value, bool) or not isinstance(n.value, (int, float)):
                self.err(n, "constant")
            return ('c', Fraction(repr(n.value)) if isinstance(n.value, float) else Fraction(n.value))
        if isinstance(n, ast.Name):
            if n.id in env:
                v = env[n.id]
                if v[0] == 'py':
                    if isinstance(v[1], int) and not isinstance(v[1], bool):
                        return ('s', 'dim') if n.id == "dim" else ('c', Fraction(v[1]))
                    self.err(n, "python value used as a number")
                return v
            self.err(n, "unbound name")
        if s in ("self.__material", "material") and isinstance(n, (ast.Attribute,)):
            return ('obj', 'material')
        if isinstance(n, ast.Attribute):
            base = ast.unparse(n.value)
            if base in ("material", "self.__material") or env.get(base) == ('obj', 'material'):
                if n.attr in ("C", "S"):
                    return ('A', n.attr)
                if n.attr in ("E", "v"):
                    return ('s', n.attr)
                if n.attr == "dim":
                    return ('s', 'dim')
                self.err(n, "material attribute")
            if s == "self.dim":
                return ('s', 'dim')
            if n.attr == "T":
                v = self.ev(n.value, env)
                if not is_mat(v):
                    self.err(n, ".T of a non-matrix")
                return ('tp', v)
            self.err(n, "attribute")
        if isinstance(n, ast.Call):
            f = ast.unparse(n.func)
            if f in ("material.get_mu", "self.__material.get_mu"):
                return ('s', 'mu')
            if f in ("material.get_lambda", "self.__material.get_lambda"):
                return ('s', 'lamb')
            if f in ("material.get_bulk", "self.__material.get_bulk"):
                return ('s', 'bulk')
            if f == "self.__Build_IxI":
                return ('A', 'IxI')
            if f == "np.eye":
                return ('one',)
            if f == "np.zeros_like":
                v = self.ev(n.args[0], env)
                if not is_mat(v):
                    self.err(n, "zeros_like of non-matrix")
                return ('zero',)
            if f in ("FeArray.asfearray", "FeArray.broadcast"):
                return self.ev(n.args[0], env)
            if f.endswith(".copy") and isinstance(n.func, ast.Attribute):
                return self.ev(n.func.value, env)
            v = self.inline_call(n, env)
            if v is not None:
                if isinstance(v, tuple) and v and isinstance(v[0], tuple):
                    self.err(n, "helper returning a tuple used as a single value")
                return v
            self.err(n, "call")
        if isinstance(n, ast.UnaryOp) and isinstance(n.op, ast.USub):
            v = self.ev(n.operand, env)
            return ('neg', v) if is_sc(v) else ('mneg', v) if is_mat(v) else self.err(n, "negation")
        if isinstance(n, ast.BinOp):
            a, b = self.ev(n.left, env), self.ev(n.right, env)
            op = n.op
            if isinstance(op, (ast.Add, ast.Sub)):
                k = '+' if isinstance(op, ast.Add) else '-'
                if is_sc(a) and is_sc(b):
                    return (k, a, b)
                if is_mat(a) and is_mat(b):
                    return ('add' if k == '+' else 'sub', a, b)
                self.err(n, "sum of a scalar and a matrix")
            if isinstance(op, ast.Mult):
                if is_sc(a) and is_sc(b):
                    return ('*', a, b)
                if is_sc(a) and is_mat(b):
                    return ('smul', a, b)
                if is_mat(a) and is_sc(b):
                    return ('smul', b, a)
                self.err(n, "elementwise product of two matrices")
            if isinstance(op, ast.Div):
                if is_sc(a) and is_sc(b):
                    return ('/', a, b)
                if is_mat(a) and is_sc(b):
                    return ('smul', ('/', ('c', Fraction(1)), b), a)
                self.err(n, "division")
            if isinstance(op, ast.MatMult):
                if is_mat(a) and is_mat(b):
                    return ('mul', a, b)
                if is_mat(a) and b[0] == 'V':
                    if a == ('A', 'C') and b == ('V', 'Epsilon'):
                        return ('V', 'Sigma')
                    if a == ('A', 'sqrtC') and b == ('V', 'Epsilon'):
                        return ('V', 'Epsilont')
                    self.err(n, "matrix @ vector other than C@Epsilon, sqrtC@Epsilon")
                self.err(n, "matmul")
            self.err(n, "binary operator")
        if isinstance(n, ast.IfExp):
            return self.ev(n.body if self.cond(n.test, env) else n.orelse, env)
        self.err(n, "expression")

    # ---- statements ----------------------------------------------------------------------
    def run(self, name, args):
        fn = self.m.get(name)
        if fn is None:
            raise TranslateError("%s: method %s not found" % (self.fname, name))
        params = [a.arg for a in fn.args.args][1:]
        env = {}
        for p, v in zip(params, args):
            env[p] = v
        for p in params[len(args):]:
            if p == "verif":
                env[p] = ('py', False)
            else:
                raise TranslateError("%s: %s: unexpected parameter %s" % (self.fname, name, p))
        self.info = {}
        try:
            self.block(fn.body, env)
        except Ret as r:
            if not (isinstance(r.v, tuple) and len(r.v) == 2 and all(is_mat(x) for x in r.v)):
                raise TranslateError("%s: %s does not return a pair of matrices" % (self.fname, name))
            return r.v
        raise TranslateError("%s: %s falls off its end" % (self.fname, name))

    SPECIAL_METHODS = ("__Rp_Rm", "__Spectral_Decomposition", "__Build_IxI", "_Eigen_values_vectors_projectors")

    def inline_call(self, n, env, depth=[0]):
        """value of a call to a private helper method `self.__x(...)` / a local closure, by symbolic
        execution of its body (positional and keyword arguments, defaults that are constants)."""
        f = ast.unparse(n.func)
        target = None
        if f.startswith("self.") and f[5:] in self.m and f[5:] not in self.SPECIAL_METHODS and not f[5:].startswith("__Split_"):
            fn, params, cenv = self.m[f[5:]], None, {}
            params = [a.arg for a in fn.args.args][1:]
            target = fn
        elif isinstance(n.func, ast.Name) and env.get(n.func.id, (None,))[0] == 'fn':
            _, fn, cenv0 = env[n.func.id]
            cenv = dict(cenv0)
            params = [a.arg for a in fn.args.args]
            target = fn
        if target is None:
            return None
        if depth[0] > 5:
            self.err(n, "helper calls nested too deeply")
        if len(n.args) > len(params) or any(isinstance(a, ast.Starred) for a in n.args):
            self.err(n, "helper call arguments")
        for p_, a in zip(params, n.args):
            cenv[p_] = self.ev(a, env)
        for k in n.keywords:
            if k.arg is None or k.arg not in params or k.arg in cenv and k.arg in params[:len(n.args)]:
                self.err(n, "helper call keyword")
            cenv[k.arg] = ('py', False) if k.arg == "verif" else self.ev(k.value, env)
        nd = len(fn.args.defaults)
        for p_, d_ in zip(params[len(params) - nd:], fn.args.defaults):
            if p_ not in cenv:
                cenv[p_] = ('py', False) if p_ == "verif" else self.ev(d_, env)
        if any(p_ not in cenv for p_ in params):
            self.err(n, "helper call: missing argument")
        depth[0] += 1
        try:
            self.block(fn.body, cenv)
        except Ret as r:
            return r.v
        finally:
            depth[0] -= 1
        self.err(n, "helper falls off its end")

    IGNORABLE_CALLS = ("tic.Tac",)

    def block(self, stmts, env):
        for st in stmts:
            self.stmt(st, env)

    def stmt(self, st, env):
        if isinstance(st, ast.Expr):
            if isinstance(st.value, ast.Constant) and isinstance(st.value.value, str):
                return
            if isinstance(st.value, ast.Call) and ast.unparse(st.value.func) in self.IGNORABLE_CALLS:
                return
            self.err(st, "expression statement")
        if isinstance(st, ast.Assert):
            return
        if isinstance(st, ast.Raise):
            self.err(st, "raise reached for configuration %r" % (self.cfg,))
        if isinstance(st, ast.Return):
            v = st.value
            if v is None:
                self.err(st, "bare return")
            if isinstance(v, ast.Tuple):
                raise Ret(tuple(self.ev(x, env) for x in v.elts))
            raise Ret(self.ev(v, env))
        if isinstance(st, ast.FunctionDef):
            # local closure: inlined at its call sites
            if st.decorator_list or st.args.vararg or st.args.kwarg or st.args.kwonlyargs:
                self.err(st, "local function with decorators / star arguments")
            env[st.name] = ('fn', st, env)
            return
        if isinstance(st, ast.If):
            t = ast.unparse(st.test)
            if t == "verif":
                return
            if self.cond(st.test, env):
                self.block(st.body, env)
            else:
                self.block(st.orelse, env)
            return
        if isinstance(st, ast.Assign) and len(st.targets) == 1:
            tg = st.targets[0]
            rhs = ast.unparse(st.value)
            if isinstance(tg, ast.Name):
                if rhs == "Tic()":
                    return
                if rhs in ("self.__material", ):
                    env[tg.id] = ('obj', 'material')
                    return
                if rhs in ("material.dim", "self.dim", "self.__material.dim"):
                    env[tg.id] = ('py', self.cfg["dim"])
                    return
                env[tg.id] = self.ev(st.value, env)
                return
            if isinstance(tg, ast.Tuple) and all(isinstance(e, ast.Name) for e in tg.elts):
                names = [e.id for e in tg.elts]
                if rhs.endswith(".shape[:2]") and len(names) == 2:
                    for nm in names:
                        env[nm] = ('py', None)
                    return
                if isinstance(st.value, ast.Call):
                    f = ast.unparse(st.value.func)
                    a = [self.ev(x, env) for x in st.value.args[:1]]
                    if f == "self.__Rp_Rm" and len(names) == 2:
                        self.info["Rp_Rm_of"] = a[0]
                        env[names[0]], env[names[1]] = ('s', 'Rp'), ('s', 'Rm')
                        return
                    if f == "self.__Spectral_Decomposition" and len(names) == 2:
                        self.info["spectral_of"] = a[0]
                        if a[0] == ('V', 'Epsilont'):
                            env[names[0]], env[names[1]] = ('A', 'projPt'), ('A', 'projMt')
                        elif a[0] in (('V', 'Epsilon'), ('V', 'Sigma')):
                            env[names[0]], env[names[1]] = ('A', 'projP'), ('A', 'projM')
                        else:
                            self.err(st, "spectral decomposition of an unknown vector")
                        return
                    if f in ("material.Get_sqrt_C_S", "self.__material.Get_sqrt_C_S") and len(names) == 2:
                        env[names[0]], env[names[1]] = ('A', 'sqrtC'), ('A', 'inv_sqrtC')
                        return
                    v = self.inline_call(st.value, env)
                    if v is not None:
                        if not (isinstance(v, tuple) and len(v) == len(names) and all(isinstance(x, tuple) for x in v)):
                            self.err(st, "helper does not return %d values" % len(names))
                        for nm, x in zip(names, v):
                            env[nm] = x
                        return
                if isinstance(st.value, ast.Tuple) and len(st.value.elts) == len(names):
                    vals = [self.ev(x, env) for x in st.value.elts]
                    for nm, x in zip(names, vals):
                        env[nm] = x
                    return
                self.err(st, "tuple assignment")
        self.err(st, "statement")


def class_methods(tree, cls):
    for n in tree.body:
        if isinstance(n, ast.ClassDef) and n.name == cls:
            return {f.name: f for f in n.body if isinstance(f, ast.FunctionDef)}, n
    raise TranslateError("class %s not found" % cls)


def dispatch_target(methods, cfg, fname):
    """Which __Split_* method Calc_C calls for this split (evaluates the if/elif chain)."""
    fn = methods.get("Calc_C")
    if fn is None:
        raise TranslateError("Calc_C not found")
    ex = SplitExec(methods, cfg, fname)
    for st in fn.body:
        if isinstance(st, ast.If):
            cur = st
            while True:
                if ex.cond(cur.test, {}):
                    body = cur.body
                    break
                if len(cur.orelse) == 1 and isinstance(cur.orelse[0], ast.If):
                    cur = cur.orelse[0]
                    continue
                body = cur.orelse
                break
            if len(body) != 1 or not isinstance(body[0], ast.Assign):
                raise TranslateError("%s: Calc_C branch for %s is not a single assignment" % (fname, cfg["split"]))
            call = body[0].value
            if not isinstance(call, ast.Call):
                raise TranslateError("%s: Calc_C branch for %s is not a call" % (fname, cfg["split"]))
            f = ast.unparse(call.func)
            if not f.startswith("self.__Split_"):
                raise TranslateError("%s: Calc_C branch for %s calls %s" % (fname, cfg["split"], f))
            args = [ast.unparse(a) for a in call.args]
            return f[len("self."):], args
    raise TranslateError("%s: Calc_C has no dispatch chain" % fname)


def configs_for(split):
    out = []
    for dim in (2, 3):
        for ps in ((True, False) if dim == 2 else (False,)):
            for het in (False, True):
                out.append(dict(split=split, dim=dim, planeStress=ps, hetero=het))
    return out


def translate_splits(methods, fname):
    """-> dict split -> list of (variant_name, cP term, cM term, info)."""
    res = {}
    for sp in SPLITS:
        seen = {}
        for cfg in configs_for(sp):
            meth, argnames = dispatch_target(methods, cfg, fname)
            ex = SplitExec(methods, cfg, fname)
            args = []
            for a in argnames:
                if a == "Epsilon_e_pg":
                    args.append(('V', 'Epsilon'))
                elif a in ("Ne", "nPg"):
                    args.append(('py', None))
                elif a.startswith("verif="):
                    pass
                else:
                    raise TranslateError("%s: Calc_C passes %s to %s" % (fname, a, meth))
            cP, cM = ex.run(meth, args)
            key = (mat_coq(cP), mat_coq(cM))
            info = dict(ex.info)
            tag = "d%d%s" % (cfg["dim"], "ps" if cfg["planeStress"] else "")
            seen.setdefault(key, {"cP": cP, "cM": cM, "cfgs": [], "info": info, "method": meth})
            seen[key]["cfgs"].append(tag + ("h" if cfg["hetero"] else ""))
        res[sp] = list(seen.values())
    return res


# ----------------------------------------------------------------------------------------
# templates for Rp_Rm, the 2-D/3-D eigen formulas, reaction/source/degradation, history
# ----------------------------------------------------------------------------------------
def _norm(s):
    try:
        s = ast.unparse(ast.parse(s.strip()))
    except SyntaxError:
        pass
    return "".join(s.split())



# ----------------------------------------------------------------------------------------
# local aliases: a name bound ONCE to a pure expression (a hoisted sub-expression, a value computed
# once instead of twice ...) is inlined wherever the template-based extractors meet it.
# Sound because (i) the name is assigned exactly once in the function and never mutated,
# (ii) its right-hand side is a pure expression, (iii) nothing it reads is stored to afterwards.
# Names the translator itself refers to (targets of its templates and tables) are never inlined.
# ----------------------------------------------------------------------------------------
_PURE_CALLS = {"Trace", "Det", "Norm", "TensorProd", "Project_matrix_to_vector", "Project_vector_to_matrix",
               "len", "abs", "min", "max", "float", "int", "FeArray.asfearray", "FeArray.zeros", "FeArray.broadcast"}
_CUR_ALIASES = {}
_KNOWN_NAMES = None


def _known_names():
    global _KNOWN_NAMES
    if _KNOWN_NAMES is None:
        _KNOWN_NAMES = set(re.findall(r"[A-Za-z_][A-Za-z0-9_]*", open(__file__).read()))
    return _KNOWN_NAMES


def _store_base(t):
    """base names stored to by an assignment target."""
    if isinstance(t, ast.Name):
        return [(t.id, "plain")]
    if isinstance(t, (ast.Tuple, ast.List)):
        return [(n, "tuple") for e in t.elts for n, _ in _store_base(e)]
    if isinstance(t, ast.Starred):
        return [(n, "tuple") for n, _ in _store_base(t.value)]
    while isinstance(t, (ast.Subscript, ast.Attribute)):
        t = t.value
    return [(t.id, "mutate")] if isinstance(t, ast.Name) else []


def _is_pure(n):
    for x in ast.walk(n):
        if isinstance(x, ast.Call):
            f = ast.unparse(x.func)
            if not (f in _PURE_CALLS or (f.startswith("np.") and not f.startswith("np.random"))):
                return False
            if any(k.arg == "out" for k in x.keywords):
                return False
        elif isinstance(x, (ast.Lambda, ast.Await, ast.Yield, ast.YieldFrom, ast.NamedExpr, ast.ListComp, ast.GeneratorExp,
                            ast.SetComp, ast.DictComp)):
            return False
    return True


def compute_aliases(fn):
    stores = {}          # name -> list of (lineno, kind)
    cand = {}
    for st in ast.walk(fn):
        tg = []
        if isinstance(st, ast.Assign):
            tg = st.targets
        elif isinstance(st, (ast.AugAssign, ast.AnnAssign)):
            tg = [st.target]
            for n, _ in _store_base(st.target):
                stores.setdefault(n, []).append((st.lineno, "mutate"))
            continue
        elif isinstance(st, (ast.For, ast.AsyncFor)):
            tg = [st.target]
        elif isinstance(st, ast.With):
            tg = [i.optional_vars for i in st.items if i.optional_vars is not None]
        elif isinstance(st, ast.Call):
            # np.xxx(..., out=name) and name.method(...) may mutate
            for k in st.keywords:
                if k.arg == "out":
                    for n, _ in _store_base(k.value):
                        stores.setdefault(n, []).append((st.lineno, "mutate"))
            continue
        else:
            continue
        for t in tg:
            for n, kind in _store_base(t):
                stores.setdefault(n, []).append((st.lineno, kind))
        if isinstance(st, ast.Assign) and len(st.targets) == 1 and isinstance(st.targets[0], ast.Name):
            cand.setdefault(st.targets[0].id, []).append(st)
    params = {a.arg for a in fn.args.args}
    out = {}
    for name, sts in cand.items():
        if name in params or name in _known_names():
            continue
        if len(sts) != 1 or len(stores.get(name, [])) != 1 or stores[name][0][1] != "plain":
            continue
        st = sts[0]
        if not _is_pure(st.value):
            continue
        reads = {x.id for x in ast.walk(st.value) if isinstance(x, ast.Name)}
        if any(ln > st.lineno for r in reads for ln, _ in stores.get(r, [])):
            continue       # something it reads is stored to later: inlining at the use site would be unsound
        out[name] = st.value
    return out


def use_aliases(fn):
    global _CUR_ALIASES
    _CUR_ALIASES = compute_aliases(fn) if fn is not None else {}
    return _CUR_ALIASES


class _Inline(ast.NodeTransformer):
    def __init__(self):
        self.depth = 0

    def visit_Name(self, n):
        if isinstance(n.ctx, ast.Load) and n.id in _CUR_ALIASES and self.depth < 20:
            self.depth += 1
            r = self.visit(ast.parse(ast.unparse(_CUR_ALIASES[n.id]), mode="eval").body)
            self.depth -= 1
            return r
        return n


def inline_aliases(node):
    """copy of an expression with the current function's aliases inlined."""
    if not _CUR_ALIASES:
        return node
    return _Inline().visit(ast.parse(ast.unparse(node), mode="eval").body)


def _vtxt(node):
    """normalised text of a value expression, aliases inlined."""
    return _norm(ast.unparse(inline_aliases(node)))


def is_alias_stmt(st):
    return isinstance(st, ast.Assign) and len(st.targets) == 1 and isinstance(st.targets[0], ast.Name) \
        and st.targets[0].id in _CUR_ALIASES


class Scalar:
    """translate a python expression to a scalar term given a name table (ast text -> term)."""

    def __init__(self, table, fname):
        self.t = {_norm(k): v for k, v in table.items()}
        self.fname = fname

    def ev(self, n):
        s = _norm(ast.unparse(n))
        if s in self.t:
            return self.t[s]
        if isinstance(n, ast.Name) and n.id in _CUR_ALIASES:
            return self.ev(_CUR_ALIASES[n.id])
        if isinstance(n, ast.Constant) and isinstance(n.value, (int, float)) and not isinstance(n.value, bool):
            return ('c', Fraction(repr(n.value)) if isinstance(n.value, float) else Fraction(n.value))
        if isinstance(n, ast.UnaryOp) and isinstance(n.op, ast.USub):
            return ('neg', self.ev(n.operand))
        if isinstance(n, ast.BinOp):
            if isinstance(n.op, ast.Pow):
                if isinstance(n.right, ast.Constant) and isinstance(n.right.value, int) and n.right.value >= 0:
                    return ('pow', self.ev(n.left), n.right.value)
                raise TranslateError("%s:%d: exponent [%s]" % (self.fname, n.lineno, s))
            k = {ast.Add: '+', ast.Sub: '-', ast.Mult: '*', ast.Div: '/'}.get(type(n.op))
            if k:
                return (k, self.ev(n.left), self.ev(n.right))
        if isinstance(n, ast.Call):
            f = ast.unparse(n.func)
            if f in ("np.sqrt", "np.abs", "np.sign", "np.cos", "np.arccos") and len(n.args) == 1:
                return ('fn', f[3:], self.ev(n.args[0]))
            if f == "np.asarray" and len(n.args) == 1 and not n.keywords:
                return self.ev(n.args[0])
        if isinstance(n, ast.Name):
            raise TranslateError("%s:%d: name `%s` is neither a quantity the translator knows nor an inlinable alias (a local assigned exactly "
                                 "once to a pure expression, none of whose inputs is modified afterwards)" % (self.fname, getattr(n, "lineno", 0), n.id))
        raise TranslateError("%s:%d: unsupported scalar expression [%s]" % (self.fname, getattr(n, "lineno", 0), ast.unparse(n)[:100]))


def find_assign(stmts, target, fname, nth=0):
    """the nth assignment (or AugAssign) whose target text is `target`, searching nested blocks
    in source order."""
    found = []

    def walk(ss):
        for st in ss:
            if isinstance(st, ast.Assign) and len(st.targets) == 1 and _norm(ast.unparse(st.targets[0])) == _norm(target):
                found.append(st)
            elif isinstance(st, (ast.AugAssign, ast.AnnAssign)) and st.value is not None \
                    and _norm(ast.unparse(st.target)) == _norm(target):
                found.append(st)
            for fld in ("body", "orelse"):
                sub = getattr(st, fld, None)
                if isinstance(sub, list) and not isinstance(st, ast.FunctionDef):
                    walk(sub)
    walk(stmts)
    if len(found) <= nth:
        raise TranslateError("%s: assignment to %s (#%d) not found" % (fname, target, nth))
    return found[nth]


def find_if(stmts, test_text, fname):
    for st in stmts:
        if isinstance(st, ast.If):
            cur = st
            while True:
                if _norm(ast.unparse(cur.test)) == _norm(test_text):
                    return cur
                if len(cur.orelse) == 1 and isinstance(cur.orelse[0], ast.If):
                    cur = cur.orelse[0]
                else:
                    break
    raise TranslateError("%s: `if %s` not found" % (fname, test_text))


def translate_rp_rm(methods, fname):
    fn = methods.get("__Rp_Rm")
    if fn is None:
        raise TranslateError("__Rp_Rm not found")
    use_aliases(fn)
    vec = fn.args.args[1].arg
    tab = {"%s[:, :, %d]" % (vec, i): ('s', "v%d" % i) for i in range(3)}
    sc = Scalar(tab, fname)
    a0 = find_assign(fn.body, "trace", fname)
    tr2 = sc.ev(a0.value)
    blk = find_if(fn.body, "dim == 3", fname)
    if len(blk.body) != 1 or not isinstance(blk.body[0], ast.AugAssign) or not isinstance(blk.body[0].op, ast.Add) \
            or ast.unparse(blk.body[0].target) != "trace" or blk.orelse:
        raise TranslateError("%s:%d: `if dim == 3` block of __Rp_Rm is not `trace += ...`" % (fname, blk.lineno))
    tr3 = ('+', tr2, sc.ev(blk.body[0].value))
    # nothing else may assign trace except an asfearray conversion
    sc2 = Scalar({"trace": ('s', 't')}, fname)
    rp = sc2.ev(find_assign(fn.body, "Rp_e_pg", fname).value)
    rm = sc2.ev(find_assign(fn.body, "Rm_e_pg", fname).value)
    ret = fn.body[-1]
    if not isinstance(ret, ast.Return) or _vtxt(ret.value) != "(Rp_e_pg,Rm_e_pg)":
        raise TranslateError("%s: __Rp_Rm does not return (Rp_e_pg, Rm_e_pg)" % fname)
    for st in fn.body:
        ok = is_alias_stmt(st) or isinstance(st, (ast.Return, ast.Expr)) or (isinstance(st, ast.Assign) and ast.unparse(st.targets[0]) in ("dim", "trace", "Rp_e_pg", "Rm_e_pg")) \
            or (isinstance(st, ast.If) and _norm(ast.unparse(st.test)) in ("dim==3", "notisinstance(trace,FeArray)"))
        if not ok:
            raise TranslateError("%s:%d: unexpected statement in __Rp_Rm" % (fname, st.lineno))
    return {"trace2": tr2, "trace3": tr3, "Rp": rp, "Rm": rm}


def translate_eig2d(methods, fname):
    fn = methods.get("_Eigen_values_vectors_projectors")
    if fn is None:
        raise TranslateError("_Eigen_values_vectors_projectors not found")
    use_aliases(fn)
    blk = find_if(fn.body, "self.dim == 2", fname)
    body = blk.body
    out = {}
    for tgt, want in (("det_e_pg", "Det(matrix_e_pg)"), ("tr_e_pg", "Trace(matrix_e_pg)")):
        a = find_assign(body, tgt, fname)
        if _vtxt(a.value) != _norm(want):
            raise TranslateError("%s:%d: %s is not %s" % (fname, a.lineno, tgt, want))
    sc = Scalar({"tr_e_pg": ('s', 'tr'), "det_e_pg": ('s', 'det')}, fname)
    out["delta"] = sc.ev(find_assign(body, "delta", fname).value)
    sc = Scalar({"tr_e_pg": ('s', 'tr'), "np.sqrt(delta)": ('s', 'sd')}, fname)
    out["eig0"] = sc.ev(find_assign(body, "eigs_e_pg[:, :, 0]", fname).value)
    out["eig1"] = sc.ev(find_assign(body, "eigs_e_pg[:, :, 1]", fname).value)
    sc = Scalar({"eigs_e_pg[:, :, 0]": ('s', 'l0'), "eigs_e_pg[:, :, 1]": ('s', 'l1')}, fname)
    out["v1mv2"] = sc.ev(find_assign(body, "v1_m_v2", fname).value)
    a = find_assign(body, "(elems, pdgs)", fname)
    if _vtxt(a.value) != _norm("np.where(eigs_e_pg[:, :, 0] != eigs_e_pg[:, :, 1])"):
        raise TranslateError("%s:%d: generic/degenerate branch test changed" % (fname, a.lineno))
    a = find_assign(body, "M1", fname)
    if _vtxt(a.value) != _norm("FeArray.zeros(Ne, nPg, 2, 2)"):
        raise TranslateError("%s:%d: M1 initialisation changed" % (fname, a.lineno))
    a = find_assign(body, "M1[:, :, 0, 0]", fname)
    if _vtxt(a.value) != "1":
        raise TranslateError("%s:%d: degenerate M1 initialisation changed" % (fname, a.lineno))
    inner = find_if(body, "elems.size > 0", fname)
    a = find_assign(inner.body, "v1_m_v2[v1_m_v2 == 0]", fname)
    if _vtxt(a.value) != "1":
        raise TranslateError("%s:%d: zero-divisor guard changed" % (fname, a.lineno))
    sc = Scalar({"matrix_e_pg": ('s', 'x'), "I_e_pg": ('s', 'i'), "eigs_e_pg[:, :, 1]": ('s', 'l1'),
                 "eigs_e_pg[:, :, 0]": ('s', 'l0'), "v1_m_v2": ('s', 'dv')}, fname)
    out["m1tot"] = sc.ev(find_assign(inner.body, "m1_tot", fname).value)
    a = find_assign(inner.body, "M1[elems, pdgs]", fname)
    if _vtxt(a.value) != _norm("m1_tot[elems, pdgs]"):
        raise TranslateError("%s:%d: M1 scatter changed" % (fname, a.lineno))
    sc = Scalar({"I_e_pg": ('s', 'i'), "M1": ('s', 'm1')}, fname)
    out["M2"] = sc.ev(find_assign(body, "M2", fname).value)
    out["delta_post"] = ('s', 'x')
    for st in body:
        if isinstance(st, ast.Assign) and _norm(ast.unparse(st.targets[0])) in (_norm("delta[delta < 0]"), _norm("delta[delta < 0.0]")):
            if _vtxt(st.value) not in ("0", "0.0"):
                raise TranslateError("%s:%d: delta clamp value changed" % (fname, st.lineno))
            out["delta_post"] = "clamp"
    allowed = {"delta[delta < 0]", "delta[delta < 0.0]",
               "det_e_pg", "tr_e_pg", "delta", "eigs_e_pg", "eigs_e_pg[:, :, 0]", "eigs_e_pg[:, :, 1]", "v1_m_v2",
               "(elems, pdgs)", "M1", "M1[:, :, 0, 0]", "M2"}
    for st in body:
        if is_alias_stmt(st):
            continue
        if isinstance(st, ast.Assign):
            if ast.unparse(st.targets[0]) not in allowed:
                raise TranslateError("%s:%d: unexpected assignment in the 2-D eigen block" % (fname, st.lineno))
        elif isinstance(st, ast.If):
            if st is not inner:
                raise TranslateError("%s:%d: unexpected branch in the 2-D eigen block" % (fname, st.lineno))
            for s2 in st.body:
                if is_alias_stmt(s2):
                    continue
                if not (isinstance(s2, ast.Assign) and ast.unparse(s2.targets[0]) in ("v1_m_v2[v1_m_v2 == 0]", "m1_tot", "M1[elems, pdgs]")):
                    raise TranslateError("%s:%d: unexpected statement in the generic 2-D projector block" % (fname, s2.lineno))
        elif isinstance(st, ast.Expr) and isinstance(st.value, ast.Call) and ast.unparse(st.value.func) == "tic.Tac":
            pass
        else:
            raise TranslateError("%s:%d: unexpected statement in the 2-D eigen block" % (fname, st.lineno))
    return out


class Mat3Expr:
    """3-D Sylvester formulas -> MatAlg term over matrix atom X and scalars v1 v2 v3."""

    def __init__(self, fname):
        self.fname = fname
        self.sc = Scalar({"v1_c1": ('s', 'v1'), "v2_c1": ('s', 'v2'), "v3_c1": ('s', 'v3')}, fname)

    def ev(self, n):
        s = _norm(ast.unparse(n))
        if s == "mat_c1":
            return "X"
        if s in ("np.eye(3)", "eye3"):
            return "1"
        if s in ("I_e_pg",):
            return "1"
        if s in ("M1", "M3"):
            return s
        if isinstance(n, ast.Name) and n.id in _CUR_ALIASES:
            return self.ev(_CUR_ALIASES[n.id])
        if isinstance(n, ast.BinOp):
            if isinstance(n.op, ast.MatMult):
                return "(%s * %s)" % (self.ev(n.left), self.ev(n.right))
            if isinstance(n.op, ast.Sub):
                return "(%s - %s)" % (self.ev(n.left), self.ev(n.right))
            if isinstance(n.op, ast.Add):
                return "(%s + %s)" % (self.ev(n.left), self.ev(n.right))
            if isinstance(n.op, ast.Mult):
                # scalar * matrix
                return "(sc %s * %s)" % (sc_coq(self.sc.ev(n.left)), self.ev(n.right))
            if isinstance(n.op, ast.Div):
                return "(sc (/ %s) * %s)" % (sc_coq(self.sc.ev(n.right)), self.ev(n.left))
        raise TranslateError("%s:%d: unsupported 3-D projector expression [%s]" % (self.fname, getattr(n, "lineno", 0), ast.unparse(n)[:100]))


def inline_case_masks(node):
    """copy of an expression with `[case1]` mask subscripts removed (per-point formula)."""
    class T(ast.NodeTransformer):
        def visit_Subscript(self, n):
            self.generic_visit(n)
            if _norm(ast.unparse(n.slice)) == "case1":
                return n.value
            return n
    return T().visit(ast.parse(ast.unparse(node), mode="eval").body)


def translate_eig3d(methods, fname):
    fn = methods["_Eigen_values_vectors_projectors"]
    use_aliases(fn)
    blk = find_if(fn.body, "self.dim == 2", fname)
    if len(blk.orelse) != 1 or not isinstance(blk.orelse[0], ast.If) or _norm(ast.unparse(blk.orelse[0].test)) != "self.dim==3":
        raise TranslateError("%s: 3-D branch of the eigen routine not found" % fname)
    body = blk.orelse[0].body
    c1 = None
    for st in body:
        if isinstance(st, ast.If) and any(isinstance(x, ast.Assign) and _norm(ast.unparse(x.targets[0])) == "M1[case1]" for x in st.body):
            c1 = st
    if c1 is None:
        raise TranslateError("%s: the 'three distinct eigenvalues' block (assigning M1[case1]) was not found" % fname)
    import re
    for nm, pat in (("v1_c1", r"val1_e_pg.*\[case1\]"), ("v2_c1", r"val2_e_pg.*\[case1\]"), ("v3_c1", r"val3_e_pg.*\[case1\]"),
                    ("mat_c1", r"mat(rix)?_e_pg.*\[case1\]")):
        a = find_assign(c1.body, nm, fname)
        txt = ast.unparse(a.value)
        if not re.search(pat, txt) or re.search(r"[-+*/@]", re.sub(r"\[[^\]]*\]", "", txt)):
            raise TranslateError("%s:%d: %s is not the case-1 restriction of its field [%s]" % (fname, a.lineno, nm, txt))
    me = Mat3Expr(fname)
    out = {"M1": me.ev(find_assign(c1.body, "M1[case1]", fname).value),
           "M3": me.ev(find_assign(c1.body, "M3[case1]", fname).value)}
    a = find_assign(body, "M2", fname)
    out["M2"] = me.ev(a.value)
    # scalar invariants (used for the statement of the Vieta hypotheses only)
    sc = Scalar({"I1_e_pg": ('s', 'I1'), "I2_e_pg": ('s', 'I2')}, fname)
    out["g"] = sc.ev(find_assign(body, "g_e_pg", fname).value)
    # ---- case selection: it may depend on the tensor only through g_neq_0(g, normSq) and the Lode
    #      argument arg = argnum(I1, I2, I3) / g**(3/2)  (scale invariance is proved on these) ----
    a = find_assign(body, "g_neq_0", fname)
    v = a.value
    if isinstance(v, ast.Call) and ast.unparse(v.func) == "np.asarray" and len(v.args) == 1:
        v = v.args[0]
    if not (isinstance(v, ast.Compare) and len(v.ops) == 1 and isinstance(v.ops[0], (ast.Gt, ast.NotEq))):
        raise TranslateError("%s:%d: g_neq_0 is not a single > or != comparison [%s]" % (fname, a.lineno, ast.unparse(a.value)))
    names = {n.id for n in ast.walk(v) if isinstance(n, ast.Name)}
    if "normSq_e_pg" in names:
        b = find_assign(body, "normSq_e_pg", fname)
        if _vtxt(b.value) != _norm("Trace(matrix_e_pg @ matrix_e_pg)"):
            raise TranslateError("%s:%d: normSq_e_pg is not Trace(matrix_e_pg @ matrix_e_pg)" % (fname, b.lineno))
    sc = Scalar({"g_e_pg": ('s', 'g'), "normSq_e_pg": ('s', 'n')}, fname)
    out["g_neq_0"] = (">" if isinstance(v.ops[0], ast.Gt) else "<>", sc.ev(v.left), sc.ev(v.comparators[0]))
    sc = Scalar({"I1_e_pg": ('s', 'I1'), "I2_e_pg": ('s', 'I2'), "I3_e_pg": ('s', 'I3')}, fname)
    out["argnum"] = sc.ev(find_assign(body, "arg", fname).value)
    found_div = False
    for st in body:
        if isinstance(st, ast.Expr) and isinstance(st.value, ast.Call) and ast.unparse(st.value.func) == "np.divide":
            c = st.value
            kws = {k.arg: _vtxt(k.value) for k in c.keywords}
            if [_vtxt(x) for x in c.args] != [_norm("arg"), _norm("g_e_pg ** (3 / 2)")] or kws != {"out": "arg", "where": "g_neq_0"}:
                raise TranslateError("%s:%d: the Lode argument is no longer arg / g_e_pg**(3/2) where g_neq_0" % (fname, st.lineno))
            found_div = True
    if not found_div:
        raise TranslateError("%s: np.divide(arg, g_e_pg ** (3 / 2), out=arg, where=g_neq_0) not found" % fname)
    allowed = {"theta": {"np", "arg"}, "case2": {"g_neq_0", "theta", "np", "tol_theta"}, "case3": {"g_neq_0", "theta", "np", "tol_theta"},
               "case1": {"g_neq_0", "theta", "np", "tol_theta", "case2", "case3", "test1"},
               "test1": {"g_neq_0", "theta", "np", "tol_theta"}, "test2": {"g_neq_0", "theta", "np", "tol_theta"}, "test3": {"g_neq_0", "theta", "np", "tol_theta"}}
    for tgt, ok in allowed.items():
        try:
            b = find_assign(body, tgt, fname)
        except TranslateError:
            if tgt in ("theta", "case1"):
                raise
            continue
        used = {n.id for n in ast.walk(b.value) if isinstance(n, ast.Name)}
        if not used <= ok:
            raise TranslateError("%s:%d: %s depends on %s (allowed: %s)" % (fname, b.lineno, tgt, sorted(used - ok), sorted(ok)))
    # ---- Frobenius normalisation applied to M1 and M3 after the cases (M2 = I - (M1 + M3) afterwards) ----
    nm_def = [x for x in fn.body if isinstance(x, ast.FunctionDef) and x.name == "normalize_matrix"]
    if len(nm_def) != 1 or len(nm_def[0].body) != 1 or not isinstance(nm_def[0].body[0], ast.Return) \
            or _norm(ast.unparse(nm_def[0].body[0].value)) != _norm("M / Norm(M, axis=(-2, -1))") or [a.arg for a in nm_def[0].args.args] != ["M"]:
        raise TranslateError("%s: normalize_matrix(M) is no longer M / Norm(M, axis=(-2, -1))" % fname)
    top = [st for st in body if isinstance(st, ast.Assign) and isinstance(st.targets[0], ast.Name)]
    last = {}
    for st in top:
        last[st.targets[0].id] = st
    for nm in ("M1", "M3"):
        if nm not in last or _norm(ast.unparse(last[nm].value)) != _norm("normalize_matrix(%s)" % nm):
            raise TranslateError("%s: the last assignment of %s in the 3-D branch is not normalize_matrix(%s)" % (fname, nm, nm))
    if "M2" not in last or last["M2"].lineno < max(last["M1"].lineno, last["M3"].lineno):
        raise TranslateError("%s: M2 = I - (M1 + M3) is not computed after the normalisation" % fname)
    # ---- case 1: the trigonometric eigenvalues ----
    clipped = False
    for st in body:
        if isinstance(st, ast.Assign) and ast.unparse(st.targets[0]) == "arg" and _vtxt(st.value) == _norm("np.clip(arg, -1, 1)"):
            clipped = True
    out["clip"] = clipped
    out["theta"] = Scalar({"arg": ('s', 'arg')}, fname).ev(find_assign(body, "theta", fname).value)
    tabv = {"I1": ('s', 'I1'), "sqrt_g_c1": ('s', 'sg'), "theta_c1": ('s', 'th'), "np.pi": ('s', 'PI'),
            "(sqrt_g_e_pg * np.cos(2 * np.pi / 3 + theta))[case1]": ('*', ('s', 'sg'), ('fn', 'cos', ('+', ('/', ('*', ('c', Fraction(2)), ('s', 'PI')), ('c', Fraction(3))), ('s', 'th'))))}
    for nm, want in (("theta_c1", "theta[case1]"), ("sqrt_g_c1", "sqrt_g[case1]")):
        try:
            a = find_assign(c1.body, nm, fname)
        except TranslateError:
            continue
        if _vtxt(a.value) != _norm(want):
            raise TranslateError("%s:%d: %s is not %s" % (fname, a.lineno, nm, want))
    base3 = {}
    for k in (1, 2, 3):
        b0 = find_assign(body, "val%d_e_pg" % k, fname)
        base3[k] = Scalar({"I1": ('s', 'I1'), "I1_e_pg": ('s', 'I1')}, fname).ev(b0.value)
        inc = None
        for st in c1.body:
            if isinstance(st, ast.AugAssign) and isinstance(st.op, ast.Add) and _norm(ast.unparse(st.target)) == _norm("val%d_e_pg[case1]" % k):
                if inc is not None:
                    raise TranslateError("%s:%d: val%d_e_pg[case1] incremented twice" % (fname, st.lineno, k))
                v = st.value
                # drop a trailing [case1] mask on the whole increment
                if isinstance(v, ast.Subscript) and _norm(ast.unparse(v.slice)) == "case1":
                    v = v.value
                inc = Scalar({"sqrt_g_c1": ('s', 'sg'), "sqrt_g_e_pg": ('s', 'sg'), "sqrt_g": ('s', 'sg'), "theta_c1": ('s', 'th'),
                              "theta": ('s', 'th'), "np.pi": ('s', 'PI')}, fname).ev(inline_case_masks(v))
        if inc is None:
            raise TranslateError("%s: val%d_e_pg[case1] += ... not found" % (fname, k))
        out["c1_val%d" % k] = ('+', base3[k], inc)
    for st in body:
        if isinstance(st, ast.Assign) and ast.unparse(st.targets[0]) == "tol_theta" and not isinstance(st.value, ast.Constant):
            raise TranslateError("%s:%d: tol_theta is not a constant" % (fname, st.lineno))
        if isinstance(st, ast.Assign) and ast.unparse(st.targets[0]) == "arg" and st is not find_assign(body, "arg", fname):
            if _vtxt(st.value) != _norm("np.clip(arg, -1, 1)"):
                raise TranslateError("%s:%d: unexpected re-assignment of arg" % (fname, st.lineno))
    return out


def translate_bulk(repo):
    """Isotropic.get_bulk: bulk in terms of lambda, mu, dim (used by the Amor split)."""
    path = os.path.join(repo, "EasyFEA", "Models", "Elastic", "_laws.py")
    fname = "Models/Elastic/_laws.py"
    methods, _ = class_methods(ast.parse(open(path).read()), "Isotropic")
    fn = methods.get("get_bulk")
    use_aliases(fn)
    if fn is None:
        raise TranslateError("%s: Isotropic.get_bulk not found" % fname)
    want = {"mu": "self.get_mu()", "lmbda": "self.get_lambda()"}
    val = None
    for st in fn.body:
        if isinstance(st, ast.Expr) and isinstance(st.value, ast.Constant):
            continue
        if isinstance(st, ast.Assign) and isinstance(st.targets[0], ast.Name):
            nm = st.targets[0].id
            if nm in want:
                if _vtxt(st.value) != _norm(want[nm]):
                    raise TranslateError("%s:%d: get_bulk: %s is not %s" % (fname, st.lineno, nm, want[nm]))
                continue
            if nm == "bulk":
                val = Scalar({"mu": ('s', 'mu'), "lmbda": ('s', 'lamb'), "self.dim": ('s', 'dim')}, fname).ev(st.value)
                continue
        if isinstance(st, ast.Return) and ast.unparse(st.value) == "bulk":
            continue
        raise TranslateError("%s:%d: unexpected statement in get_bulk" % (fname, st.lineno))
    if val is None:
        raise TranslateError("%s: get_bulk does not assign bulk" % fname)
    return val


def _dim_test(test, dim):
    """value of a test `dim == k` / `self.dim == k` (None if the test is something else)."""
    if isinstance(test, ast.Compare) and len(test.ops) == 1 and isinstance(test.ops[0], (ast.Eq, ast.NotEq)) \
            and _norm(ast.unparse(test.left)) in ("dim", "self.dim") and isinstance(test.comparators[0], ast.Constant) \
            and isinstance(test.comparators[0].value, int):
        r = (dim == test.comparators[0].value)
        return r if isinstance(test.ops[0], ast.Eq) else not r
    return None


def list_under_dim(fn, name, dim, fname):
    """Value of the list-valued local `name` at the end of `fn` for the given dimension, as a list of
    normalised element texts.  Handles: list/tuple displays, `x if dim == k else y`, per-dimension
    if/elif blocks, names bound to a call (m1 = f(M1)), comprehensions `[f(M) for M in <list>]`."""
    env = {}

    def run(stmts):
        for st in stmts:
            if isinstance(st, ast.If):
                v = _dim_test(st.test, dim)
                if v is None:
                    if _norm(ast.unparse(st.test)) == "verif":
                        continue
                    # another kind of branch: names assigned inside are not tracked
                    for x in ast.walk(st):
                        if isinstance(x, ast.Assign):
                            for t in x.targets:
                                for n, _k in _store_base(t):
                                    env.pop(n, None) if n in ("list_m", "list_M", name) else None
                    continue
                run(st.body if v else st.orelse)
            elif isinstance(st, ast.Assign) and len(st.targets) == 1 and isinstance(st.targets[0], ast.Name):
                env[st.targets[0].id] = st.value
            elif isinstance(st, ast.Assign):
                for t in st.targets:
                    for n, k in _store_base(t):
                        if k != "mutate":
                            env.pop(n, None)

    run(fn.body)

    def elems(node, depth=0):
        if depth > 10:
            raise TranslateError("%s: %s: list definition too deep" % (fname, name))
        if isinstance(node, (ast.List, ast.Tuple)):
            return [item(e, depth) for e in node.elts]
        if isinstance(node, ast.IfExp):
            v = _dim_test(node.test, dim)
            if v is None:
                raise TranslateError("%s:%d: %s: conditional on something else than dim" % (fname, node.lineno, name))
            return elems(node.body if v else node.orelse, depth + 1)
        if isinstance(node, ast.Name) and node.id in env:
            return elems(env[node.id], depth + 1)
        if isinstance(node, ast.ListComp) and len(node.generators) == 1:
            g = node.generators[0]
            if g.ifs or g.is_async or not isinstance(g.target, ast.Name):
                raise TranslateError("%s:%d: %s: unsupported comprehension" % (fname, node.lineno, name))
            src = elems(g.iter, depth + 1)
            out = []
            for e in src:
                class Sub(ast.NodeTransformer):
                    def visit_Name(self, n):
                        return ast.parse(e, mode="eval").body if n.id == g.target.id else n
                out.append(_norm(ast.unparse(Sub().visit(ast.parse(ast.unparse(node.elt), mode="eval").body))))
            return out
        if isinstance(node, ast.Call) and ast.unparse(node.func) == "list" and len(node.args) == 1:
            return elems(node.args[0], depth + 1)
        raise TranslateError("%s:%d: %s: unsupported list definition [%s]" % (fname, getattr(node, "lineno", 0), name, ast.unparse(node)[:80]))

    def item(e, depth):
        # a name bound to a call of a pure function of matrices (m1 = Project_matrix_to_vector(M1)) is expanded once
        if isinstance(e, ast.Name) and e.id in env and isinstance(env[e.id], ast.Call) and _is_pure(env[e.id]) \
                and e.id not in ("M1", "M2", "M3"):
            return _norm(ast.unparse(env[e.id]))
        return _norm(ast.unparse(e))

    if name not in env:
        raise TranslateError("%s: %s is not assigned for dim == %d" % (fname, name, dim))
    return elems(env[name])


def translate_assembly2d(methods, fname, repo):
    """2-D branch of __Spectral_Decomposition: projP from eigenvalues and Kelvin-Mandel eigenprojector
    vectors; plus the Kelvin-Mandel packing Project_matrix_to_vector (2-D part)."""
    fn = methods.get("__Spectral_Decomposition")
    if fn is None:
        raise TranslateError("%s: __Spectral_Decomposition not found" % fname)
    use_aliases(fn)
    out = {}
    body = fn.body
    a = find_assign(body, "(val_e_pg, list_m, list_M)", fname)
    if not _vtxt(a.value).startswith(_norm("self._Eigen_values_vectors_projectors(vector_e_pg")):
        raise TranslateError("%s:%d: eigen data do not come from _Eigen_values_vectors_projectors(vector_e_pg, ...)" % (fname, a.lineno))
    sc = Scalar({"val_e_pg": ('s', 'l')}, fname)
    out["valp"] = sc.ev(find_assign(body, "valp", fname).value)
    a = find_assign(body, "dvalp", fname)
    if _vtxt(a.value) != _norm("np.heaviside(val_e_pg, 0.5)"):
        raise TranslateError("%s:%d: dvalp is not np.heaviside(val_e_pg, 0.5)" % (fname, a.lineno))
    blk = find_if(body, "dim == 2", fname)
    b2 = blk.body
    expect = {
        "(m1, m2)": "(list_m[0], list_m[1])",
        "v1_m_v2[v1_m_v2 == 0]": "1",
        "m1xm1": "TensorProd(m1, m1, ndim=1)",
        "m2xm2": "TensorProd(m2, m2, ndim=1)",
    }
    for tgt, want in expect.items():
        a = find_assign(b2, tgt, fname)
        if _vtxt(a.value) != _norm(want):
            raise TranslateError("%s:%d: %s is not %s" % (fname, a.lineno, tgt, want))
    sc = Scalar({"val_e_pg[..., 0]": ('s', 'l0'), "val_e_pg[..., 1]": ('s', 'l1')}, fname)
    out["dv"] = sc.ev(find_assign(b2, "v1_m_v2", fname).value)
    sc = Scalar({"valp[..., 0]": ('s', 'vp0'), "valp[..., 1]": ('s', 'vp1'), "v1_m_v2": ('s', 'dv')}, fname)
    out["BetaP"] = sc.ev(find_assign(b2, "BetaP", fname).value)
    sc = Scalar({"dvalp": ('s', 'dk'), "BetaP": ('s', 'beta')}, fname)
    out["gammap"] = sc.ev(find_assign(b2, "gammap", fname).value)
    # entry (a,b) of projP: np.eye(3) -> i ; m1xm1 -> x1*y1 ; m2xm2 -> x2*y2
    sc = Scalar({"BetaP": ('s', 'beta'), "np.eye(3)": ('s', 'i'), "gammap[..., 0]": ('s', 'g0'), "gammap[..., 1]": ('s', 'g1'),
                 "m1xm1": ('*', ('s', 'x1'), ('s', 'y1')), "m2xm2": ('*', ('s', 'x2'), ('s', 'y2'))}, fname)
    out["projP"] = sc.ev(find_assign(b2, "projP", fname).value)
    sc = Scalar({"np.eye(3)": ('s', 'i'), "projP": ('s', 'p')}, fname)
    out["projM"] = sc.ev(find_assign(b2, "projM", fname).value)
    okt = set(expect) | {"v1_m_v2", "BetaP", "gammap", "projP", "projM"}
    for st in b2:
        if is_alias_stmt(st):
            continue
        if isinstance(st, ast.Assign):
            if ast.unparse(st.targets[0]) not in okt:
                raise TranslateError("%s:%d: unexpected assignment in the 2-D projector assembly" % (fname, st.lineno))
        elif not (isinstance(st, ast.Expr) and isinstance(st.value, ast.Call) and ast.unparse(st.value.func) == "tic.Tac"):
            raise TranslateError("%s:%d: unexpected statement in the 2-D projector assembly" % (fname, st.lineno))
    ret = fn.body[-1]
    if not (isinstance(ret, ast.Return) and _vtxt(ret.value) == "(projP,projM)"):
        raise TranslateError("%s: __Spectral_Decomposition does not return (projP, projM)" % fname)
    # the eigen routine hands over m_i = Project_matrix_to_vector(M_i) and [m1, m2]
    fe = methods["_Eigen_values_vectors_projectors"]
    got_M = list_under_dim(fe, "list_M", 2, fname)
    got_m = list_under_dim(fe, "list_m", 2, fname)
    if got_M != ["M1", "M2"]:
        raise TranslateError("%s: in 2-D list_M evaluates to %s, expected [M1, M2]" % (fname, got_M))
    if got_m != [_norm("Project_matrix_to_vector(M1)"), _norm("Project_matrix_to_vector(M2)")]:
        raise TranslateError("%s: in 2-D list_m evaluates to %s, expected [Project_matrix_to_vector(M1), Project_matrix_to_vector(M2)]" % (fname, got_m))
    ret = fe.body[-1]
    if not (isinstance(ret, ast.Return) and _norm(ast.unparse(ret.value)) == _norm("(eigs_e_pg, list_m, list_M)")):
        raise TranslateError("%s: the eigen routine does not return (eigs_e_pg, list_m, list_M)" % fname)
    # Kelvin-Mandel packing, 2-D part
    upath = os.path.join(repo, "EasyFEA", "Models", "_utils.py")
    uname = "Models/_utils.py"
    tree = ast.parse(open(upath).read())
    pf = [f for f in tree.body if isinstance(f, ast.FunctionDef) and f.name == "Project_matrix_to_vector"]
    if not pf:
        raise TranslateError("%s: Project_matrix_to_vector not found" % uname)
    pf = pf[0]
    args = pf.args.args
    defaults = pf.args.defaults
    if [x.arg for x in args] != ["matrix", "coef"] or len(defaults) != 1 or _norm(ast.unparse(defaults[0])) != _norm("np.sqrt(2)"):
        raise TranslateError("%s:%d: Project_matrix_to_vector(matrix, coef=np.sqrt(2)) signature changed" % (uname, pf.lineno))
    sc = Scalar({"matrix[..., 0, 0]": ('s', 'm11'), "matrix[..., 1, 1]": ('s', 'm22'), "matrix[..., 0, 1]": ('s', 'm12'),
                 "matrix[..., 1, 0]": ('s', 'm12'), "coef": ('s', 'r2')}, uname)
    km = []
    for k in range(3):
        a = find_assign(pf.body, "vector[..., %d]" % k, uname)      # first occurrence = the 2-D branch
        km.append(sc.ev(a.value))
    out["km"] = km
    return out


class DegExpr:
    """expressions of the degenerate 3-D branches -> (type, coq text); masks / newaxis subscripts are dropped."""

    def __init__(self, fname, case, env):
        self.fname, self.case, self.env = fname, case, dict(env)

    def strip(self, n):
        while isinstance(n, ast.Subscript):
            sl = _norm(ast.unparse(n.slice))
            if sl in (self.case, _norm("(:, np.newaxis, np.newaxis)"), _norm(":, np.newaxis, np.newaxis")):
                n = n.value
            else:
                break
        return n

    def ev(self, n):
        n = self.strip(n)
        t = _norm(ast.unparse(n))
        if t in self.env:
            return self.env[t]
        if isinstance(n, ast.Name) and n.id in _CUR_ALIASES:
            return self.ev(_CUR_ALIASES[n.id])
        if isinstance(n, ast.Constant) and isinstance(n.value, (int, float)) and not isinstance(n.value, bool):
            return ('S', sc_coq(('c', Fraction(repr(n.value)) if isinstance(n.value, float) else Fraction(n.value))))
        if isinstance(n, ast.UnaryOp) and isinstance(n.op, ast.USub):
            k, x = self.ev(n.operand)
            return (k, "(- %s)" % x)
        if isinstance(n, ast.BinOp):
            (ka, a), (kb, b) = self.ev(n.left), self.ev(n.right)
            op = type(n.op)
            if ka == kb == 'S' and op in (ast.Add, ast.Sub, ast.Mult, ast.Div):
                return ('S', "(%s %s %s)" % (a, {ast.Add: '+', ast.Sub: '-', ast.Mult: '*', ast.Div: '/'}[op], b))
            if ka == kb == 'M' and op in (ast.Add, ast.Sub):
                return ('M', "(%s %s %s)" % (a, '+' if op is ast.Add else '-', b))
            if ka == 'S' and kb == 'M' and op is ast.Mult:
                return ('M', "(sc %s * %s)" % (a, b))
            if ka == 'M' and kb == 'S' and op is ast.Mult:
                return ('M', "(sc %s * %s)" % (b, a))
            if ka == 'M' and kb == 'S' and op is ast.Div:
                return ('M', "(sc (/ %s) * %s)" % (b, a))
        raise TranslateError("%s:%d: unsupported expression in the degenerate 3-D branch [%s]" % (self.fname, getattr(n, "lineno", 0), ast.unparse(n)[:100]))


def translate_eig3d_degenerate(methods, fname):
    fn = methods["_Eigen_values_vectors_projectors"]
    use_aliases(fn)
    blk = find_if(fn.body, "self.dim == 2", fname)
    body = blk.orelse[0].body
    out = {}
    for nm, want in (("mat_e_pg", "np.asarray(matrix_e_pg)"), ("I1", "np.asarray(I1_e_pg)"), ("sqrt_g", "np.asarray(sqrt_g_e_pg)"),
                     ("eye3", "np.eye(3)"), ("sqrt_g_e_pg", "np.sqrt(g_e_pg)"), ("I1_e_pg", "Trace(matrix_e_pg)")):
        a = find_assign(body, nm, fname)
        if _vtxt(a.value) != _norm(want):
            raise TranslateError("%s:%d: %s is not %s" % (fname, a.lineno, nm, want))
    # case 4 defaults
    base = {"I1": ('S', 'I1')}
    for k in (1, 2, 3):
        out["c4_val%d" % k] = DegExpr(fname, "", base).ev(find_assign(body, "val%d_e_pg" % k, fname).value)[1]
    for M in ("M1", "M3"):
        a = find_assign(body, M, fname)
        if _vtxt(a.value) != _norm("np.zeros(mat_e_pg.shape)"):
            raise TranslateError("%s:%d: default %s is not np.zeros(mat_e_pg.shape)" % (fname, a.lineno, M))
        idx = None
        for st in body:
            if isinstance(st, ast.Assign):
                t = _norm(ast.unparse(st.targets[0]))
                for i in range(3):
                    if t == _norm("%s[..., %d, %d]" % (M, i, i)):
                        if idx is not None or _vtxt(st.value) != "1":
                            raise TranslateError("%s:%d: default %s initialisation changed" % (fname, st.lineno, M))
                        idx = i
        if idx is None:
            raise TranslateError("%s: default diagonal entry of %s not found" % (fname, M))
        out["c4_%s" % M] = idx
    # cases 2 and 3
    for c, first, second in ((2, "M1", "M3"), (3, "M3", "M1")):
        case = "case%d" % c
        blk_c = None
        for st in body:
            if isinstance(st, ast.If) and _norm(ast.unparse(st.test)) == _norm("%s.any()" % case):
                blk_c = st
        if blk_c is None:
            raise TranslateError("%s: block `if %s.any()` not found" % (fname, case))
        a = find_assign(blk_c.body, "sqrt_g_c%d" % c, fname)
        if _vtxt(a.value) != _norm("sqrt_g[%s]" % case):
            raise TranslateError("%s:%d: sqrt_g_c%d is not sqrt_g[%s]" % (fname, a.lineno, c, case))
        env = {"I1": ('S', 'I1'), "sqrt_g_c%d" % c: ('S', 'sg'), "mat_e_pg": ('M', 'X'), "eye3": ('M', '1')}
        de = DegExpr(fname, case, env)
        seen = set()
        for st in blk_c.body:
            if isinstance(st, ast.Expr) and isinstance(st.value, ast.Call) and ast.unparse(st.value.func) == "tic.Tac":
                continue
            if isinstance(st, ast.AugAssign) and isinstance(st.op, ast.Add):
                t = _norm(ast.unparse(st.target))
                for k in (1, 2, 3):
                    if t == _norm("val%d_e_pg[%s]" % (k, case)):
                        kk, x = de.ev(st.value)
                        if kk != 'S':
                            raise TranslateError("%s:%d: eigenvalue increment is not a scalar" % (fname, st.lineno))
                        out["c%d_val%d" % (c, k)] = "(%s + %s)" % (out["c4_val%d" % k], x)
                        seen.add(t)
                        break
                else:
                    raise TranslateError("%s:%d: unexpected += in case %d" % (fname, st.lineno, c))
                continue
            if is_alias_stmt(st):
                continue
            if isinstance(st, ast.Assign):
                t = _norm(ast.unparse(st.targets[0]))
                if t == _norm("sqrt_g_c%d" % c):
                    continue
                if t == _norm("I_rg_c%d" % c):
                    de.env[t] = de.ev(st.value)
                    continue
                if t == _norm("%s[%s]" % (first, case)):
                    out["c%d_%s" % (c, first)] = de.ev(st.value)[1]
                    de.env[_norm(first)] = ('M', 'P')      # the matrix just assigned
                    continue
                if t == _norm("%s[%s]" % (second, case)):
                    if "c%d_%s" % (c, first) not in out:
                        raise TranslateError("%s:%d: %s assigned before %s in case %d" % (fname, st.lineno, second, first, c))
                    out["c%d_%s" % (c, second)] = de.ev(st.value)[1]
                    continue
            raise TranslateError("%s:%d: unexpected statement in case %d [%s]" % (fname, st.lineno, c, ast.unparse(st)[:80]))
        for k in ("c%d_val1" % c, "c%d_val2" % c, "c%d_val3" % c, "c%d_%s" % (c, first), "c%d_%s" % (c, second)):
            if k not in out:
                raise TranslateError("%s: case %d does not define %s" % (fname, c, k))
    # after the cases: Frobenius normalisation of M1, M3 (not modelled) and M2 = I - (M1 + M3)
    return out


def translate_assembly3d(methods, fname, repo):
    """3-D branch of __Spectral_Decomposition: index maps, Kelvin-Mandel scale table, the gathered
    products defining G_ab, theta_ab, and the 3-D Kelvin-Mandel packing."""
    fn = methods["__Spectral_Decomposition"]
    use_aliases(fn)
    blk = find_if(fn.body, "dim == 2", fname)
    if len(blk.orelse) != 1 or not isinstance(blk.orelse[0], ast.If) or _norm(ast.unparse(blk.orelse[0].test)) != "dim==3":
        raise TranslateError("%s: 3-D branch of __Spectral_Decomposition not found" % fname)
    b3 = blk.orelse[0].body
    out = {}

    def val(t):
        return find_assign(b3, t, fname).value

    def same(t, want):
        a = find_assign(b3, t, fname)
        if _vtxt(a.value) != _norm(want):
            raise TranslateError("%s:%d: %s is not %s" % (fname, a.lineno, t, want))

    for t, w in (("(m1, m2, m3)", "list_m"), ("(M1, M2, M3)", "list_M"), ("coef", "np.sqrt(2)"), ("thetap", "dvalp / 2"),
                 ("m_all", "np.stack([m1, m2, m3])"), ("mxm", "m_all[..., :, np.newaxis] * m_all[..., np.newaxis, :]"),
                 ("dvalp_w", "np.moveaxis(dvalp, -1, 0)[..., None, None]"), ("diag_sum", "(mxm * dvalp_w).sum(axis=0)"),
                 ("thetap_w", "np.moveaxis(thetap, -1, 0)[..., None, None]"), ("G_sum", "(G_all * thetap_w).sum(axis=0)"),
                 ("projP", "FeArray.asfearray(diag_sum + G_sum)"), ("projM", "np.eye(6) - projP"), ("_km_scale", "np.ones((6, 6))")):
        same(t, w)
    # index maps
    for nm in ("_rI", "_rJ"):
        v = val(nm)
        if not (isinstance(v, ast.Call) and ast.unparse(v.func) == "np.array" and len(v.args) == 1):
            raise TranslateError("%s:%d: %s is not np.array([...])" % (fname, v.lineno, nm))
        lst = ast.literal_eval(v.args[0])
        if not (isinstance(lst, list) and len(lst) == 6 and all(isinstance(x, int) and 0 <= x < 3 for x in lst)):
            raise TranslateError("%s:%d: %s is not a list of six indices in 0..2" % (fname, v.lineno, nm))
        out[nm] = lst
    # scale table: slice assignments with constant bounds, in source order
    tab = [["1"] * 6 for _ in range(6)]
    for st in b3:
        if isinstance(st, ast.Assign) and isinstance(st.targets[0], ast.Subscript) and ast.unparse(st.targets[0].value) == "_km_scale":
            sl = st.targets[0].slice
            if not (isinstance(sl, ast.Tuple) and len(sl.elts) == 2 and all(isinstance(e, ast.Slice) and e.step is None for e in sl.elts)):
                raise TranslateError("%s:%d: unsupported _km_scale assignment" % (fname, st.lineno))
            rng = []
            for e in sl.elts:
                lo = ast.literal_eval(e.lower) if e.lower is not None else 0
                hi = ast.literal_eval(e.upper) if e.upper is not None else 6
                if not (isinstance(lo, int) and isinstance(hi, int) and 0 <= lo <= hi <= 6):
                    raise TranslateError("%s:%d: _km_scale slice bounds" % (fname, st.lineno))
                rng.append(range(lo, hi))
            vt = _vtxt(st.value)
            if vt in (_norm("coef"), _norm("np.sqrt(2)")):
                v = "r2"
            elif vt in ("2", "2.0"):
                v = "2"
            elif vt in ("1", "1.0"):
                v = "1"
            else:
                raise TranslateError("%s:%d: unsupported _km_scale value %s" % (fname, st.lineno, vt))
            for i in rng[0]:
                for j in rng[1]:
                    tab[i][j] = v
    out["scale"] = tab
    # stacks of projector pairs
    pairs = []
    for nm in ("Ma", "Mb"):
        v = val(nm)
        if not (isinstance(v, ast.Call) and ast.unparse(v.func) == "np.stack" and len(v.args) == 1 and isinstance(v.args[0], ast.List)):
            raise TranslateError("%s:%d: %s is not np.stack([...])" % (fname, v.lineno, nm))
        names = [ast.unparse(e) for e in v.args[0].elts]
        if len(names) != 3 or any(n not in ("M1", "M2", "M3") for n in names):
            raise TranslateError("%s:%d: %s stacks %s" % (fname, v.lineno, nm, names))
        pairs.append([int(n[1]) - 1 for n in names])
    out["pairs"] = list(zip(pairs[0], pairs[1]))
    # gathers  X[..., _rP[:, None], _rQ[None, :]]  ->  entry (I, J) = X[rP[I], rQ[J]]
    gathers = {}
    for st in b3:
        if isinstance(st, ast.Assign) and isinstance(st.targets[0], ast.Name) and isinstance(st.value, ast.Subscript) \
                and ast.unparse(st.value.value) in ("Ma", "Mb"):
            sl = st.value.slice
            ok = isinstance(sl, ast.Tuple) and len(sl.elts) == 3 and isinstance(sl.elts[0], ast.Constant) and sl.elts[0].value is Ellipsis
            if ok:
                r, c = _norm(ast.unparse(sl.elts[1])), _norm(ast.unparse(sl.elts[2]))
                mr = re.fullmatch(r"(_r[IJ])\[:,None\]", r)
                mc = re.fullmatch(r"(_r[IJ])\[None,:\]", c)
                ok = bool(mr and mc)
            if not ok:
                raise TranslateError("%s:%d: unsupported gather [%s]" % (fname, st.lineno, ast.unparse(st.value)))
            gathers[st.targets[0].id] = ("A" if ast.unparse(st.value.value) == "Ma" else "B", mr.group(1)[1:], mc.group(1)[1:])

    def gev(n):
        if isinstance(n, ast.Name) and n.id in gathers:
            m, r, c = gathers[n.id]
            return "%s (p3_%s I) (p3_%s J)" % (m, r, c)
        if isinstance(n, ast.Call) and isinstance(n.func, ast.Attribute) and n.func.attr == "swapaxes" \
                and [_norm(ast.unparse(a)) for a in n.args] == ["-2", "-1"] and isinstance(n.func.value, ast.Name) and n.func.value.id in gathers:
            m, r, c = gathers[n.func.value.id]
            return "%s (p3_%s J) (p3_%s I)" % (m, r, c)
        if isinstance(n, ast.Name) and n.id == "_km_scale":
            return "p3_scale r2 I J"
        if isinstance(n, ast.Name) and n.id in _CUR_ALIASES:
            return gev(_CUR_ALIASES[n.id])
        if isinstance(n, ast.BinOp) and isinstance(n.op, (ast.Add, ast.Mult)):
            return "(%s %s %s)" % (gev(n.left), "+" if isinstance(n.op, ast.Add) else "*", gev(n.right))
        raise TranslateError("%s:%d: unsupported expression in G_all [%s]" % (fname, getattr(n, "lineno", 0), ast.unparse(n)[:80]))
    out["G"] = gev(val("G_all"))
    # theta_ab and the guarded differences, in the order of the stacked pairs
    thetas = []
    for k, (a, b) in enumerate(out["pairs"]):
        dvn = "v%d_m_v%d" % (a + 1, b + 1)
        d = Scalar({"val_e_pg[..., %d]" % a: ('s', 'la'), "val_e_pg[..., %d]" % b: ('s', 'lb')}, fname).ev(val(dvn))
        g = find_assign(b3, "%s[%s == 0]" % (dvn, dvn), fname)
        if _vtxt(g.value) != "1":
            raise TranslateError("%s:%d: zero-divisor guard of %s changed" % (fname, g.lineno, dvn))
        t = Scalar({"valp[..., %d]" % a: ('s', 'vpa'), "valp[..., %d]" % b: ('s', 'vpb'), dvn: ('s', 'dv')}, fname).ev(val("thetap[..., %d]" % k))
        thetas.append((sc_coq(d), sc_coq(t)))
    if len(set(thetas)) != 1:
        raise TranslateError("%s: the three theta_ab formulas differ: %s" % (fname, thetas))
    out["dv"], out["theta"] = thetas[0]
    okt = {"(m1, m2, m3)", "(M1, M2, M3)", "coef", "thetap", "m_all", "mxm", "dvalp_w", "diag_sum", "thetap_w", "G_sum", "projP", "projM",
           "_km_scale", "_rI", "_rJ", "Ma", "Mb", "G_all"} | set(gathers)
    for st in b3:
        if is_alias_stmt(st):
            continue
        if isinstance(st, ast.Assign):
            t = ast.unparse(st.targets[0])
            if t in okt or re.fullmatch(r"v\d_m_v\d(\[v\d_m_v\d == 0\])?", t) or re.fullmatch(r"thetap\[\.\.\., \d\]", t) or t.startswith("_km_scale["):
                continue
            raise TranslateError("%s:%d: unexpected assignment in the 3-D projector assembly [%s]" % (fname, st.lineno, t))
        if not (isinstance(st, ast.Expr) and isinstance(st.value, ast.Call) and ast.unparse(st.value.func) == "tic.Tac"):
            raise TranslateError("%s:%d: unexpected statement in the 3-D projector assembly" % (fname, st.lineno))
    fe = methods["_Eigen_values_vectors_projectors"]
    if list_under_dim(fe, "list_M", 3, fname) != ["M1", "M2", "M3"] or \
            list_under_dim(fe, "list_m", 3, fname) != [_norm("Project_matrix_to_vector(M%d)" % k) for k in (1, 2, 3)]:
        raise TranslateError("%s: in 3-D list_M / list_m are not [M1, M2, M3] / their Kelvin-Mandel packings" % fname)
    # 3-D Kelvin-Mandel packing
    upath = os.path.join(repo, "EasyFEA", "Models", "_utils.py")
    tree = ast.parse(open(upath).read())
    pf = [f for f in tree.body if isinstance(f, ast.FunctionDef) and f.name == "Project_matrix_to_vector"][0]
    use_aliases(pf)
    tabm = {"coef": ('s', 'r2')}
    for i in range(3):
        for j in range(3):
            tabm["matrix[..., %d, %d]" % (i, j)] = ('s', "(M %d%%nat %d%%nat)" % (i, j))
    sc = Scalar(tabm, "Models/_utils.py")
    out["km3"] = [sc_coq(sc.ev(find_assign(pf.body, "vector[..., %d]" % k, "Models/_utils.py", nth=(1 if k < 3 else 0)).value)) for k in range(6)]
    return out


def translate_sources(methods, fname):
    out = {}
    for meth, var in (("Get_r_e_pg", "r"), ("Get_f_e_pg", "f")):
        fn = methods.get(meth)
        if fn is None:
            raise TranslateError("%s not found" % meth)
        use_aliases(fn)
        psi = fn.args.args[1].arg
        for regu in ("AT1", "AT2"):
            blk = find_if(fn.body, "self.regularization == self.ReguType.%s" % regu, fname)
            tab = {psi: ('s', 'psi'), "Gc": ('s', 'Gc'), "l0": ('s', 'l0')}
            cur = None
            for st in blk.body:
                if is_alias_stmt(st):
                    continue
                if not (isinstance(st, ast.Assign) and isinstance(st.targets[0], ast.Name)):
                    raise TranslateError("%s:%d: unexpected statement in %s/%s" % (fname, st.lineno, meth, regu))
                sc = Scalar(tab, fname)
                val = sc.ev(st.value)
                tab[st.targets[0].id] = val
                if st.targets[0].id == var:
                    cur = val
            if cur is None:
                raise TranslateError("%s: %s/%s does not assign %s" % (fname, meth, regu, var))
            out["%s_%s" % (var, regu)] = cur
        ret = fn.body[-1]
        if not (isinstance(ret, ast.Return) and ast.unparse(ret.value) == var):
            raise TranslateError("%s: %s does not return %s" % (fname, meth, var))
    fn = methods.get("Get_g_e_pg")
    if fn is None:
        raise TranslateError("Get_g_e_pg not found")
    use_aliases(fn)
    a = find_assign(fn.body, "g_e_pg", fname)
    out["g"] = Scalar({"d_e_pg": ('s', 'd'), "k_res": ('s', 'k_res')}, fname).ev(a.value)
    return out


HIST_TEMPLATE = [
    "inc_H = psiP_e_pg - old_psiPlus_e_pg",
    "(elements, gaussPoints) = np.where(inc_H < 0)",
    "psiP_e_pg[elements, gaussPoints] = old_psiPlus_e_pg[elements, gaussPoints]",
]
HD_TEMPLATE = [
    "oldAndNewDamage = np.zeros((d_np1.shape[0], 2))",
    "oldAndNewDamage[:, 0] = old_damage",
    "oldAndNewDamage[:, 1] = d_np1",
    "d_np1 = np.max(oldAndNewDamage, 1)",
]
LB_TEMPLATE = [
    "lb = self.damage",
    "lb[np.where(lb >= 1)] = 1 - np.finfo(float).eps",
    "ub = np.ones(lb.shape)",
    "self.solver = SolverType.lsq_linear",
]


def _contains_seq(stmts, template, fname, what):
    texts = [_norm(ast.unparse(s)) for s in stmts]
    tpl = [_norm(t) for t in template]
    for i in range(len(texts) - len(tpl) + 1):
        if texts[i:i + len(tpl)] == tpl:
            return i
    raise TranslateError("%s: %s no longer has the expected statement sequence %r" % (fname, what, template))


def translate_history(simfile):
    use_aliases(None)
    src = open(simfile).read()
    tree = ast.parse(src)
    methods, _ = class_methods(tree, "PhaseField")
    fname = os.path.basename(os.path.dirname(simfile)) + "/" + os.path.basename(simfile)
    fn = methods.get("__Calc_psiPlus_e_pg")
    if fn is None:
        raise TranslateError("%s: __Calc_psiPlus_e_pg not found" % fname)
    blk = find_if(fn.body, "phaseFieldModel.solver == 'History'", fname)
    i = _contains_seq(blk.body, HIST_TEMPLATE, fname, "history update")
    # after the template only comments may follow inside the block
    if i + len(HIST_TEMPLATE) != len(blk.body):
        raise TranslateError("%s:%d: statements after the history update" % (fname, blk.lineno))
    a = find_assign(blk.body, "old_psiPlus_e_pg", fname)
    if _vtxt(a.value) != _norm("self.__old_psiP_e_pg.copy()"):
        raise TranslateError("%s:%d: old history is not read from self.__old_psiP_e_pg" % (fname, a.lineno))
    tail = [_norm(ast.unparse(s)) for s in fn.body[-2:]]
    if tail != [_norm("self.__psiP_e_pg = FeArray.asfearray(psiP_e_pg)"), _norm("return self.__psiP_e_pg")]:
        raise TranslateError("%s: __Calc_psiPlus_e_pg no longer stores/returns the updated field" % fname)
    sv = methods.get("Save_Iter")
    blk = find_if(sv.body, "self.phaseFieldModel.solver == self.phaseFieldModel.SolverType.History", fname)
    if [_norm(ast.unparse(s)) for s in blk.body] != [_norm("self.__old_psiP_e_pg = self.__psiP_e_pg")]:
        raise TranslateError("%s: Save_Iter no longer commits the history field" % fname)
    so = methods.get("Solve")
    blk = find_if(so.body, "solver in [solverTypes.History, solverTypes.BoundConstrain]", fname)
    if not (len(blk.orelse) == 1 and isinstance(blk.orelse[0], ast.If) and _norm(ast.unparse(blk.orelse[0].test)) == _norm("solver == solverTypes.HistoryDamage")):
        raise TranslateError("%s: Solve: HistoryDamage branch not found" % fname)
    hd = [_norm(ast.unparse(s)) for s in blk.orelse[0].body]
    if hd[:len(HD_TEMPLATE)] != [_norm(t) for t in HD_TEMPLATE]:
        raise TranslateError("%s: Solve: HistoryDamage maximum changed" % fname)
    stored = False
    for t in hd[len(HD_TEMPLATE):]:
        if t == _norm("self._Set_solutions(self.ProblemTypes.damage, d_np1)"):
            stored = True
        elif t not in (_norm("self.__updatedDisplacement = False"), _norm("self.__updatedDamage = False")):
            raise TranslateError("%s: Solve: unexpected statement after the HistoryDamage maximum [%s]" % (fname, t))
    a = find_assign(so.body, "old_damage", fname)
    if _vtxt(a.value) != "self.damage":
        raise TranslateError("%s: Solve: old_damage is not self.damage" % fname)
    lb = methods.get("Get_lb_ub")
    blk = find_if(lb.body, "problemType == self.ProblemTypes.damage", fname)
    inner = find_if(blk.body, "solver == Models.PhaseField.SolverType.BoundConstrain", fname)
    if [_norm(ast.unparse(s)) for s in inner.body] != [_norm(t) for t in LB_TEMPLATE]:
        raise TranslateError("%s: Get_lb_ub: bound-constrained branch changed" % fname)
    return {"hist_update": "fun old psi : R => if Rlt_dec (psi - old) 0 then old else psi",
            # what Save_Iter stores (simu.damage) after Solve(): the maximum only if Solve writes it back
            "hd_update": "fun old new : R => Rmax old new" if stored else "fun old new : R => new",
            "hd_stored": stored,
            "bc_lb": "fun (eps d : R) => if Rle_dec 1 d then 1 - eps else d"}


# ----------------------------------------------------------------------------------------
# emission
# ----------------------------------------------------------------------------------------
def translate(repo):
    path = os.path.join(repo, "EasyFEA", "Models", "_phasefield.py")
    fname = "Models/_phasefield.py"
    tree = ast.parse(open(path).read())
    methods, cls = class_methods(tree, "PhaseField")
    # the enum of splits must be exactly the 14 known names
    names = None
    for n in cls.body:
        if isinstance(n, ast.ClassDef) and n.name == "SplitType":
            names = [t.targets[0].id for t in n.body if isinstance(t, ast.Assign)]
    if names is None or sorted(names) != sorted(SPLITS):
        raise TranslateError("%s: SplitType members are %r, expected the 14 of the property" % (fname, names))
    res = {"splits": translate_splits(methods, fname),
           "bulk": translate_bulk(repo),
           "rp_rm": translate_rp_rm(methods, fname),
           "eig2d": translate_eig2d(methods, fname),
           "eig3d": translate_eig3d(methods, fname),
           "asm2d": translate_assembly2d(methods, fname, repo),
           "deg3d": translate_eig3d_degenerate(methods, fname),
           "asm3d": translate_assembly3d(methods, fname, repo),
           "sources": translate_sources(methods, fname),
           "history": translate_history(os.path.join(repo, "EasyFEA", "Simulations", "_phasefield.py"))}
    return res


def emit_coq(res):
    L = []
    w = L.append
    w("(* GENERATED by translator/splits.py from EasyFEA/Models/_phasefield.py and")
    w("   EasyFEA/Simulations/_phasefield.py - do not edit. *)")
    w("From Coq Require Import Reals List.")
    w("From EFLib Require Import C17_MatAlg.")
    w("Local Open Scope R_scope.")
    w("")
    w("(* sign as numpy defines it: -1, 0, 1 *)")
    w("Definition sgn (x : R) : R := if Rlt_dec 0 x then 1 else if Rlt_dec x 0 then -1 else 0.")
    w("")
    w("Record env (A : MatAlg) : Type := mkEnv {")
    for a in MAT_ATOMS:
        w("  %s : A;" % a)
    w("  " + ";\n  ".join("%s : R" % s for s in SC_ATOMS))
    w("}.")
    for a in MAT_ATOMS + SC_ATOMS:
        w("Arguments %s {A} _." % a)
    w("")
    w("Section Splits.")
    w("Variable A : MatAlg.")
    w("Local Open Scope mat_scope.")
    index = []
    for sp, variants in res["splits"].items():
        for k, v in enumerate(variants):
            nm = sp if len(variants) == 1 else "%s_%s" % (sp, v["cfgs"][0])
            w("(* split %s: method %s, configurations %s; spectral decomposition of %s; Rp/Rm of %s *)" % (
                sp, v["method"], " ".join(v["cfgs"]), (v["info"].get("spectral_of") or ("-", "-"))[1], (v["info"].get("Rp_Rm_of") or ("-", "-"))[1]))
            w("Definition cP_%s (e : env A) : A := %s." % (nm, mat_coq(v["cP"])))
            w("Definition cM_%s (e : env A) : A := %s." % (nm, mat_coq(v["cM"])))
            index.append((sp, nm, v["cfgs"]))
    w("End Splits.")
    w("")
    r = res["rp_rm"]
    w("Definition src_trace2 (v0 v1 : R) : R := %s." % sc_coq(r["trace2"]))
    w("Definition src_trace3 (v0 v1 v2 : R) : R := %s." % sc_coq(r["trace3"]))
    w("Definition src_Rp (t : R) : R := %s." % sc_coq(r["Rp"]))
    w("Definition src_Rm (t : R) : R := %s." % sc_coq(r["Rm"]))
    w("Definition src_bulk (lamb mu dim : R) : R := %s." % sc_coq(res["bulk"]))
    w("")
    e = res["eig2d"]
    w("(* 2-D eigen routine; sd stands for np.sqrt(delta); x = a matrix entry, i = the identity's entry *)")
    w("Definition e2_delta (tr det : R) : R := %s." % sc_coq(e["delta"]))
    w("Definition e2_delta_post (x : R) : R := %s." % ("if Rlt_dec x 0 then 0 else x" if e["delta_post"] == "clamp" else "x"))
    w("Definition e2_eig0 (tr sd : R) : R := %s." % sc_coq(e["eig0"]))
    w("Definition e2_eig1 (tr sd : R) : R := %s." % sc_coq(e["eig1"]))
    w("Definition e2_v1mv2 (l0 l1 : R) : R := %s." % sc_coq(e["v1mv2"]))
    w("Definition e2_m1tot (x i l0 l1 dv : R) : R := %s." % sc_coq(e["m1tot"]))
    w("Definition e2_M2 (i m1 : R) : R := %s." % sc_coq(e["M2"]))
    w("")
    a2 = res["asm2d"]
    w("(* 2-D assembly of projP in __Spectral_Decomposition; l = an eigenvalue; hvs = np.heaviside(., h) *)")
    w("Definition hvs (x h : R) : R := if Rlt_dec x 0 then 0 else if Rlt_dec 0 x then 1 else h.")
    w("Definition p2_valp (l : R) : R := %s." % sc_coq(a2["valp"]))
    w("Definition p2_dvalp (l : R) : R := hvs l (1 / 2).")
    w("Definition p2_dv (l0 l1 : R) : R := if Req_EM_T %s 0 then 1 else %s." % (sc_coq(a2["dv"]), sc_coq(a2["dv"])))
    w("Definition p2_BetaP (vp0 vp1 dv : R) : R := %s." % sc_coq(a2["BetaP"]))
    w("Definition p2_gammap (dk beta : R) : R := %s." % sc_coq(a2["gammap"]))
    w("(* entry (a,b) of projP: i = entry of np.eye(3), x_k = m_k[a], y_k = m_k[b] *)")
    w("Definition p2_projP (beta g0 g1 i x1 y1 x2 y2 : R) : R := %s." % sc_coq(a2["projP"]))
    w("Definition p2_projM (i p : R) : R := %s." % sc_coq(a2["projM"]))
    w("(* Kelvin-Mandel packing of a symmetric 2x2 matrix (Project_matrix_to_vector), r2 = coef = sqrt 2 *)")
    for k in range(3):
        w("Definition km2_%d (m11 m22 m12 r2 : R) : R := %s." % (k, sc_coq(a2["km"][k])))
    w("")
    a3 = res["asm3d"]
    w("(* 3-D assembly of projP: index maps of the Kelvin-Mandel components, scale table, entry (I,J) of G_ab built from")
    w("   the projectors A = M_a, B = M_b (functions of two indices), theta_ab, 3-D Kelvin-Mandel packing *)")
    w("Definition p3_rI (I : nat) : nat := nth I (%s) 0%%nat." % " :: ".join("%d%%nat" % x for x in a3["_rI"]) .join(["", " :: nil"]))
    w("Definition p3_rJ (I : nat) : nat := nth I (%s) 0%%nat." % " :: ".join("%d%%nat" % x for x in a3["_rJ"]).join(["", " :: nil"]))
    rows = ["(%s :: nil)" % " :: ".join(r) for r in a3["scale"]]
    w("Definition p3_scale (r2 : R) (I J : nat) : R := nth J (nth I (%s :: nil) nil) 0." % " :: ".join(rows))
    w("Definition p3_G (A B : nat -> nat -> R) (r2 : R) (I J : nat) : R := %s." % a3["G"])
    w("Definition p3_pairs : list (nat * nat) := %s :: nil." % " :: ".join("(%d%%nat, %d%%nat)" % p for p in a3["pairs"]))
    w("Definition p3_dv (la lb : R) : R := if Req_EM_T %s 0 then 1 else %s." % (a3["dv"], a3["dv"]))
    w("Definition p3_theta (vpa vpb dv : R) : R := %s." % a3["theta"])
    w("Definition km3 (M : nat -> nat -> R) (r2 : R) (I : nat) : R := nth I (%s :: nil) 0." % " :: ".join(a3["km3"]))
    w("")
    e = res["eig3d"]
    w("Section Sylvester3.")
    w("Variable A : MatAlg.")
    w("Local Open Scope mat_scope.")
    w("Definition e3_M1 (X : A) (v1 v2 v3 : R) : A := %s." % e["M1"])
    w("Definition e3_M3 (X : A) (v1 v2 v3 : R) : A := %s." % e["M3"])
    w("Definition e3_M2 (M1 M3 : A) : A := %s." % e["M2"])
    dg = res["deg3d"]
    w("(* degenerate branches: case 2 (two largest equal), case 3 (two smallest equal); sg = sqrt g; P = the projector")
    w("   assigned first in the branch *)")
    w("Definition e3c2_M1 (X : A) (I1 sg : R) : A := %s." % dg["c2_M1"])
    w("Definition e3c2_M3 (P : A) : A := %s." % dg["c2_M3"])
    w("Definition e3c3_M3 (X : A) (I1 sg : R) : A := %s." % dg["c3_M3"])
    w("Definition e3c3_M1 (P : A) : A := %s." % dg["c3_M1"])
    w("End Sylvester3.")
    for c in (2, 3, 4):
        for k in (1, 2, 3):
            w("Definition e3c%d_val%d (I1 sg : R) : R := %s." % (c, k, dg["c%d_val%d" % (c, k)]))
    w("(* case 4 (g = 0) default projectors: index of the unit diagonal entry of M1 and of M3 *)")
    w("Definition e3c4_M1_index : nat := %d." % dg["c4_M1"])
    w("Definition e3c4_M3_index : nat := %d." % dg["c4_M3"])
    w("Definition e3_g (I1 I2 : R) : R := %s." % sc_coq(e["g"]))
    w("(* case selection of the 3-D routine: g_neq_0 as a function of g and n = Trace(A @ A); numerator of the")
    w("   Lode argument arg = e3_argnum / g**(3/2); theta and the case masks depend on nothing else *)")
    w("Definition e3_g_neq_0 (g n : R) : Prop := %s %s %s." % (sc_coq(e["g_neq_0"][1]), e["g_neq_0"][0], sc_coq(e["g_neq_0"][2])))
    w("Definition e3_argnum (I1 I2 I3 : R) : R := %s." % sc_coq(e["argnum"]))
    w("(* after the cases the source replaces M1, M3 by M / Norm(M) (Frobenius), then M2 = I - (M1 + M3): checked by template *)")
    w("(* case 1: Lode angle theta from the (clipped) argument, and the three trigonometric eigenvalues; sg = sqrt g, th = theta *)")
    w("Definition e3_clip (x : R) : R := %s." % ("Rmax (-1) (Rmin x 1)" if e["clip"] else "x"))
    w("Definition e3_theta (arg : R) : R := %s." % sc_coq(e["theta"]))
    for k in (1, 2, 3):
        w("Definition e3c1_val%d (I1 sg th : R) : R := %s." % (k, sc_coq(e["c1_val%d" % k])))
    w("")
    s = res["sources"]
    for k in ("r_AT1", "r_AT2", "f_AT1", "f_AT2"):
        w("Definition src_%s (psi Gc l0 : R) : R := %s." % (k, sc_coq(s[k])))
    w("Definition src_g (d k_res : R) : R := %s." % sc_coq(s["g"]))
    w("")
    h = res["history"]
    w("Definition src_hist_update : R -> R -> R := %s." % h["hist_update"])
    w("Definition src_hd_update : R -> R -> R := %s." % h["hd_update"])
    w("Definition src_bc_lb : R -> R -> R := %s." % h["bc_lb"])
    return "\n".join(L) + "\n", index


if __name__ == "__main__":
    import sys
    r = translate(sys.argv[1] if len(sys.argv) > 1 else "/repo")
    txt, idx = emit_coq(r)
    print(txt)
    for i in idx:
        print("(* %s *)" % (i,))
