"""C19 translator: EasyFEA/Models/InElastic/{_spectral,Yield,_behavior}.py, Models/_kelvin.py,
Simulations/_inelastic.py  ->  Gen_C19.v  (python ast only, fail-closed).

What is read
  _spectral._Phi        d, w, phi, safe, dphi                 (per-term formulas + reductions)
  _spectral.Solve       symbolic execution of the loop body: the next theta, the break test, the
                        active flag, the returned dGamma / eigen-stress, with and without rate law
  _behavior.__Spectral  p_new = pOld + dGamma, eps_p = eps - Cinv sig, converged
  Yield.VonMises / Hill the quadratic form P (through _kelvin.ONE / IDEV), exact rationals
  _behavior / _inelastic  who writes the committed state: assignment targets per method

Local names are resolved by dataflow (straight-line symbolic execution), so renaming a local or
splitting an expression does not change the output; anything outside the grammar raises.
"""
import ast
import os
from fractions import Fraction as F


class TranslateError(Exception):
    pass


def fail(node, msg, fname=""):
    raise TranslateError("%s:%s: %s" % (fname, getattr(node, "lineno", "?"), msg))


def parse(repo, rel):
    p = os.path.join(repo, rel)
    src = open(p).read()
    return ast.parse(src), src, rel


def find_func(tree, name, cls=None):
    body = tree.body
    if cls:
        for n in body:
            if isinstance(n, ast.ClassDef) and n.name == cls:
                body = n.body
                break
        else:
            raise TranslateError("class %s not found" % cls)
    for n in body:
        if isinstance(n, ast.FunctionDef) and n.name == name:
            return n
    raise TranslateError("function %s not found" % name)


# ---------------------------------------------------------------------------------------------
# expression trees:  ("c", Fraction) ("v", name) ("+",a,b) ("-",a,b) ("*",a,b) ("/",a,b) ("neg",a)
#                    ("pow",a,n) ("sqrt",a) ("max",a,b) ("abs",a) ("if",cond,a,b) ("lt",a,b)
#                    ("app",fname,a) ("b", name)  boolean symbol
# ---------------------------------------------------------------------------------------------
def const(node, src):
    seg = ast.get_source_segment(src, node)
    try:
        return ("c", F(seg))
    except (ValueError, TypeError):
        return ("c", F(repr(node.value)))


class Sym:
    """Symbolic executor for the numpy fragment used by _spectral.py."""

    def __init__(self, src, fname, funcs, reductions):
        self.src, self.fname = src, fname
        self.env = {}
        self.funcs = funcs            # dotted call name -> symbol of a unary real function
        self.reductions = reductions  # list collecting (summand tree) of `.sum(axis=-1)`
        self.closures = {}            # local helper functions (closures), inlined at each call
        self.flags = {}               # truth value of the guards `<name> is not None`
        self.depth = 0

    def define_closure(self, fn):
        a = fn.args
        if a.vararg or a.kwarg or a.kwonlyargs or a.defaults or a.posonlyargs or fn.decorator_list:
            fail(fn, "local helper %s: only plain positional parameters are accepted" % fn.name, self.fname)
        for n in ast.walk(fn):
            if isinstance(n, (ast.Global, ast.Nonlocal, ast.Yield, ast.YieldFrom, ast.Lambda, ast.For, ast.While, ast.Try, ast.With)) or (isinstance(n, ast.FunctionDef) and n is not fn):
                fail(n, "local helper %s contains %s" % (fn.name, type(n).__name__), self.fname)
        self.closures[fn.name] = fn

    def call_closure(self, fn, argtrees, node):
        """Inlines a local helper: its body is executed symbolically in the caller's current
        environment (python closures read the enclosing variables at call time) extended by the
        parameters; local assignments do not leak out."""
        params = [x.arg for x in fn.args.args]
        if len(params) != len(argtrees):
            fail(node, "call of %s with %d arguments" % (fn.name, len(argtrees)), self.fname)
        if self.depth > 4:
            fail(node, "helper calls nested too deeply (recursion?)", self.fname)
        saved = self.env
        self.env = dict(saved)
        self.env.update(zip(params, argtrees))
        self.depth += 1
        try:
            result = self._run_closure_body(fn.body, fn)
        finally:
            self.env = saved
            self.depth -= 1
        if result is None:
            fail(fn, "local helper %s does not return a value on every path" % fn.name, self.fname)
        return result

    def _run_closure_body(self, stmts, fn):
        for st in stmts:
            if isinstance(st, ast.Expr) and isinstance(st.value, ast.Constant):
                continue
            if isinstance(st, ast.Assign) and len(st.targets) == 1 and isinstance(st.targets[0], ast.Name):
                self.env[st.targets[0].id] = self.ex(st.value)
            elif isinstance(st, ast.Return) and st.value is not None:
                return self.ex(st.value)
            elif isinstance(st, ast.If) and not st.orelse:
                seg = ast.get_source_segment(self.src, st.test)
                if seg not in self.flags:
                    fail(st, "undecidable guard `%s` in local helper %s" % (seg, fn.name), self.fname)
                if self.flags[seg]:
                    r = self._run_closure_body(st.body, fn)
                    if r is not None:
                        return r
            else:
                fail(st, "statement %s in local helper %s" % (type(st).__name__, fn.name), self.fname)
        return None

    def dotted(self, node):
        if isinstance(node, ast.Name):
            return node.id
        if isinstance(node, ast.Attribute):
            b = self.dotted(node.value)
            return None if b is None else b + "." + node.attr
        return None

    def ex(self, n):
        if isinstance(n, ast.Constant) and isinstance(n.value, (int, float)) and not isinstance(n.value, bool):
            return const(n, self.src)
        if isinstance(n, ast.Name):
            if n.id in self.env:
                return self.env[n.id]
            fail(n, "unbound name %s" % n.id, self.fname)
        if isinstance(n, ast.UnaryOp) and isinstance(n.op, ast.USub):
            return ("neg", self.ex(n.operand))
        if isinstance(n, ast.BinOp):
            if isinstance(n.op, ast.Pow):
                if isinstance(n.right, ast.Constant) and isinstance(n.right.value, int) and n.right.value >= 0:
                    return ("pow", self.ex(n.left), n.right.value)
                fail(n, "power with non-literal exponent", self.fname)
            ops = {ast.Add: "+", ast.Sub: "-", ast.Mult: "*", ast.Div: "/"}
            for k, v in ops.items():
                if isinstance(n.op, k):
                    return (v, self.ex(n.left), self.ex(n.right))
            fail(n, "operator %s" % type(n.op).__name__, self.fname)
        if isinstance(n, ast.Compare) and len(n.ops) == 1:
            a, b = self.ex(n.left), self.ex(n.comparators[0])
            if isinstance(n.ops[0], ast.Gt):
                return ("lt", b, a)
            if isinstance(n.ops[0], ast.Lt):
                return ("lt", a, b)
            fail(n, "comparison %s" % type(n.ops[0]).__name__, self.fname)
        if isinstance(n, ast.Call):
            name = self.dotted(n.func)
            if name == "np.sqrt" and len(n.args) == 1:
                return ("sqrt", self.ex(n.args[0]))
            if name == "np.maximum" and len(n.args) == 2:
                return ("max", self.ex(n.args[0]), self.ex(n.args[1]))
            if name == "np.abs" and len(n.args) == 1:
                return ("abs", self.ex(n.args[0]))
            if name == "np.exp" and len(n.args) == 1:
                return ("exp", self.ex(n.args[0]))
            if name == "np.where" and len(n.args) == 3:
                return ("if", self.ex(n.args[0]), self.ex(n.args[1]), self.ex(n.args[2]))
            if name == "np.max" and len(n.args) == 1:
                # reduction over Gauss points: max_i a_i < c  <=>  forall i, a_i < c
                return ("allmax", self.ex(n.args[0]))
            if name in self.funcs and len(n.args) == 1:
                return ("app", self.funcs[name], self.ex(n.args[0]))
            if isinstance(n.func, ast.Name) and n.func.id in self.closures and not n.keywords:
                return self.call_closure(self.closures[n.func.id], [self.ex(a) for a in n.args], n)
            if isinstance(n.func, ast.Attribute) and n.func.attr == "sum":
                kw = {k.arg: k.value for k in n.keywords}
                if not n.args and set(kw) == {"axis"} and isinstance(kw["axis"], ast.UnaryOp) and ast.get_source_segment(self.src, kw["axis"]) == "-1":
                    summand = self.ex(n.func.value)
                    self.reductions.append(summand)
                    return ("v", "SUM%d" % (len(self.reductions) - 1))
            fail(n, "call %s" % (name or ast.dump(n.func)[:40]), self.fname)
        fail(n, "expression %s" % type(n).__name__, self.fname)


def subst(t, m):
    if t[0] == "v":
        return m.get(t[1], t)
    if t[0] in ("c", "b"):
        return t
    if t[0] == "pow":
        return ("pow", subst(t[1], m), t[2])
    if t[0] == "app":
        return ("app", t[1], subst(t[2], m))
    return (t[0],) + tuple(subst(x, m) for x in t[1:])


def free(t, acc=None):
    acc = set() if acc is None else acc
    if t[0] == "v":
        acc.add(("R", t[1]))
    elif t[0] == "b":
        acc.add(("bool", t[1]))
    elif t[0] == "c":
        pass
    elif t[0] == "pow":
        free(t[1], acc)
    elif t[0] == "app":
        acc.add(("fun", t[1]))
        free(t[2], acc)
    else:
        for x in t[1:]:
            free(x, acc)
    return acc


def coq(t):
    k = t[0]
    if k == "c":
        f = t[1]
        if f.denominator == 1:
            return str(f.numerator) if f >= 0 else "(-%d)" % -f.numerator
        return "(%d/%d)" % (f.numerator, f.denominator) if f > 0 else "(-%d/%d)" % (-f.numerator, f.denominator)
    if k in ("v", "b"):
        return t[1]
    if k in "+-*/" and len(k) == 1:
        return "(%s %s %s)" % (coq(t[1]), k, coq(t[2]))
    if k == "neg":
        return "(- %s)" % coq(t[1])
    if k == "pow":
        if t[2] == 2:
            return "(%s * %s)" % (coq(t[1]), coq(t[1]))
        return "(%s ^ %d)" % (coq(t[1]), t[2])
    if k == "sqrt":
        return "(sqrt %s)" % coq(t[1])
    if k == "max":
        return "(Rmax %s %s)" % (coq(t[1]), coq(t[2]))
    if k == "abs":
        return "(Rabs %s)" % coq(t[1])
    if k == "exp":
        return "(exp %s)" % coq(t[1])
    if k == "lt":
        return "(Rltb %s %s)" % (coq(t[1]), coq(t[2]))
    if k == "if":
        return "(if %s then %s else %s)" % (coq(t[1]), coq(t[2]), coq(t[3]))
    if k == "app":
        return "(%s %s)" % (t[1], coq(t[2]))
    raise TranslateError("cannot print %r" % (t,))


def ev(t, env):
    """Exact/float evaluation used by the python-side search."""
    import math
    k = t[0]
    if k == "c":
        return float(t[1])
    if k in ("v", "b"):
        return env[t[1]]
    if k == "+":
        return ev(t[1], env) + ev(t[2], env)
    if k == "-":
        return ev(t[1], env) - ev(t[2], env)
    if k == "*":
        return ev(t[1], env) * ev(t[2], env)
    if k == "/":
        return ev(t[1], env) / ev(t[2], env)
    if k == "neg":
        return -ev(t[1], env)
    if k == "pow":
        return ev(t[1], env) ** t[2]
    if k == "sqrt":
        return math.sqrt(ev(t[1], env))
    if k == "max":
        return max(ev(t[1], env), ev(t[2], env))
    if k == "abs":
        return abs(ev(t[1], env))
    if k == "exp":
        return math.exp(ev(t[1], env))
    if k == "lt":
        return ev(t[1], env) < ev(t[2], env)
    if k == "if":
        return ev(t[2], env) if ev(t[1], env) else ev(t[3], env)
    if k == "app":
        return env[t[1]](ev(t[2], env))
    raise TranslateError("cannot evaluate %r" % (t,))


def define(name, tree, order=None, ret="R"):
    fv = sorted(free(tree), key=lambda x: (order.index(x[1]) if order and x[1] in order else 99, x[1]))
    if order:
        present = {x[1]: x for x in fv}
        fv = []
        for o in order:           # fixed argument list so the theorem file can apply it
            if o in present:
                fv.append(present.pop(o))
            else:
                kind = "fun" if o.startswith("h") or o.startswith("r_") else ("bool" if o == "active" else "R")
                fv.append((kind, o))
        if present:
            raise TranslateError("definition %s uses unexpected symbols %s" % (name, sorted(present)))
    args = " ".join("(%s : %s)" % (n, {"R": "R", "bool": "bool", "fun": "R -> R"}[k]) for k, n in fv)
    return "Definition %s %s : %s := %s." % (name, args, ret, coq(tree))


# ---------------------------------------------------------------------------------------------
def read_phi(repo):
    tree, src, rel = parse(repo, "EasyFEA/Models/InElastic/_spectral.py")
    fn = find_func(tree, "_Phi")
    args = [a.arg for a in fn.args.args]
    if len(args) != 3:
        fail(fn, "_Phi must take (y, lam, theta)", rel)
    y, lam, th = args
    red = []
    S = Sym(src, rel, {}, red)
    S.env = {y: ("v", "y"), lam: ("v", "lam"), th: ("v", "theta")}
    ret = None
    for st in fn.body:
        if isinstance(st, ast.Expr) and isinstance(st.value, ast.Constant):
            continue
        if isinstance(st, ast.Assign) and len(st.targets) == 1 and isinstance(st.targets[0], ast.Name):
            S.env[st.targets[0].id] = S.ex(st.value)
        elif isinstance(st, ast.Return) and isinstance(st.value, ast.Tuple) and len(st.value.elts) == 2:
            ret = (S.ex(st.value.elts[0]), S.ex(st.value.elts[1]))
        else:
            fail(st, "statement %s in _Phi" % type(st).__name__, rel)
    if ret is None or len(red) != 2:
        raise TranslateError("%s: _Phi must return (phi, dphi) using exactly two `.sum(axis=-1)` reductions (found %d)" % (rel, len(red)))
    return {"phi": ret[0], "dphi": ret[1], "summands": red, "line": fn.lineno, "file": rel}


def read_solve(repo):
    """Symbolically executes Solve.  Returns trees in the symbols
       theta phi dphi pOld sigma_y tol dt  + functions hR hdR r_inv r_dinv + bool active."""
    tree, src, rel = parse(repo, "EasyFEA/Models/InElastic/_spectral.py")
    fn = find_func(tree, "Solve")
    out = {}
    for with_rate in (False, True):
        red = []
        S = Sym(src, rel, {"hardening.R": "hR", "hardening.dR": "hdR", "rate.inverse": "r_inv", "rate.dinverse": "r_dinv", "rate.rate": "r_rate"}, red)
        names = [a.arg for a in fn.args.args]
        need = ["eigen", "sigTr_e_pg", "pOld_e_pg", "hardening", "sigma_y", "rate", "dt", "tol", "maxIter"]
        if names != need:
            fail(fn, "Solve signature changed: %s" % names, rel)
        S.env = {"pOld_e_pg": ("v", "pOld"), "sigma_y": ("v", "sigma_y"), "dt": ("v", "dt"), "tol": ("v", "tol")}
        S.flags = {"rate is not None": with_rate}
        theta_name = None
        phi_calls = 0
        loop_seen = False
        res = {}

        def assign(st, S=S):
            nonlocal theta_name, phi_calls
            tg = st.targets[0]
            v = st.value
            # (phi, dphi) = _Phi(y, lam, theta)
            if isinstance(tg, ast.Tuple) and isinstance(v, ast.Call) and S.dotted(v.func) == "_Phi":
                if len(v.args) != 3 or not isinstance(v.args[2], ast.Name) or v.args[2].id != theta_name:
                    fail(st, "_Phi must be called on the current theta", rel)
                cur = S.env[theta_name]
                # phi/dphi are kept symbolic *at the current theta*
                tag = "0" if cur == ("c", F(0)) else ""
                if len(tg.elts) != 2:
                    fail(st, "_Phi returns two values", rel)
                for e, nm in zip(tg.elts, ("phi" + tag, "dphi" + tag)):
                    if isinstance(e, ast.Name):
                        S.env[e.id] = ("v", nm)
                phi_calls += 1
                return
            if not isinstance(tg, ast.Name):
                fail(st, "assignment target", rel)
            if tg.id in S.closures:
                fail(st, "local helper %s is re-bound" % tg.id, rel)
            if isinstance(v, ast.Call) and S.dotted(v.func) == "FeArray.zeros":
                if theta_name is None:
                    theta_name = tg.id
                S.env[tg.id] = ("c", F(0))
                return
            if isinstance(v, ast.Attribute) and S.dotted(v) == "eigen.lam":
                S.env[tg.id] = ("v", "lam")
                return
            if isinstance(v, ast.BinOp) and isinstance(v.op, ast.MatMult):
                # y = Ti @ sigTr  /  sig = T @ (y*d)
                if isinstance(v.right, ast.Name) and v.right.id == "sigTr_e_pg":
                    S.env[tg.id] = ("v", "y")
                else:
                    res["sig_eig"] = S.ex(v.right)
                    S.env[tg.id] = ("v", "SIG")
                return
            S.env[tg.id] = S.ex(v)

        def block(stmts, in_loop):
            nonlocal loop_seen
            for st in stmts:
                if isinstance(st, ast.Expr) and isinstance(st.value, ast.Constant):
                    continue
                if isinstance(st, ast.FunctionDef) and not in_loop and not loop_seen:
                    if st.name in S.env or st.name in S.closures:
                        fail(st, "local helper %s shadows another name" % st.name, rel)
                    S.define_closure(st)
                elif isinstance(st, ast.Assign) and len(st.targets) == 1:
                    assign(st)
                elif isinstance(st, ast.If):
                    seg = ast.get_source_segment(src, st.test)
                    if seg == "rate is not None" and not st.orelse:
                        if with_rate:
                            block(st.body, in_loop)
                    elif in_loop and len(st.body) == 1 and isinstance(st.body[0], ast.Break) and not st.orelse:
                        if "break" in res:
                            fail(st, "second break", rel)
                        res["break"] = S.ex(st.test)
                        res["state_at_break"] = dict(S.env)
                    else:
                        fail(st, "if-statement `%s`" % seg, rel)
                elif isinstance(st, ast.For) and not in_loop and ast.get_source_segment(src, st.iter) != "range(maxIter)":
                    # a start-up loop before the Newton loop: accepted only if all it does to theta
                    # is scale it by a literal factor in (0, 1] at some points
                    if loop_seen or st.orelse:
                        fail(st, "loop after the Newton loop", rel)
                    scaled = False
                    for sub in st.body:
                        if isinstance(sub, ast.Assign) and len(sub.targets) == 1 and isinstance(sub.targets[0], ast.Name) and sub.targets[0].id == theta_name:
                            v = sub.value
                            okf = False
                            if isinstance(v, ast.Call) and S.dotted(v.func) == "np.where" and len(v.args) == 3 and isinstance(v.args[2], ast.Name) and v.args[2].id == theta_name and isinstance(v.args[1], ast.BinOp) and isinstance(v.args[1].op, ast.Mult):
                                a, b = v.args[1].left, v.args[1].right
                                for k, t in ((a, b), (b, a)):
                                    if isinstance(k, ast.Constant) and isinstance(k.value, (int, float)) and 0 < k.value <= 1 and isinstance(t, ast.Name) and t.id == theta_name:
                                        okf = True
                            if not okf or scaled:
                                fail(sub, "start-up loop may only scale theta by a literal in (0, 1]", rel)
                            scaled = True
                        elif isinstance(sub, ast.Assign) and len(sub.targets) == 1:
                            tg = sub.targets[0]
                            names_ = [e.id for e in (tg.elts if isinstance(tg, ast.Tuple) else [tg]) if isinstance(e, ast.Name)]
                            if theta_name in names_ or "active_e_pg" in names_ or "pOld_e_pg" in names_ or "y_e_pg" in names_:
                                fail(sub, "start-up loop assigns %s" % names_, rel)
                        elif isinstance(sub, ast.If) and len(sub.body) == 1 and isinstance(sub.body[0], ast.Break) and not sub.orelse:
                            pass
                        elif isinstance(sub, ast.Expr) and isinstance(sub.value, ast.Constant):
                            pass
                        else:
                            fail(sub, "statement %s in the start-up loop" % type(sub).__name__, rel)
                    if scaled:
                        S.env[theta_name] = ("*", ("v", "c_pull"), S.env[theta_name])
                elif isinstance(st, ast.For) and not in_loop:
                    it = ast.get_source_segment(src, st.iter)
                    if it != "range(maxIter)" or st.orelse:
                        fail(st, "loop header %s" % it, rel)
                    if loop_seen:
                        fail(st, "second loop", rel)
                    loop_seen = True
                    # loop-carried variables become symbols
                    res["active"] = S.env.get("active_e_pg")
                    res["start"] = S.env[theta_name]
                    pre = dict(S.env)
                    S.env[theta_name] = ("v", "theta")
                    carried = {n.targets[0].id for n in ast.walk(st) if isinstance(n, ast.Assign) and isinstance(n.targets[0], ast.Name)}
                    for c in carried:
                        if c in pre and c != theta_name:
                            S.env[c] = ("v", "carried_" + c)
                    if "active_e_pg" in carried:
                        fail(st, "the active set is re-assigned inside the loop (no freeze)", rel)
                    S.env["active_e_pg"] = ("b", "active")
                    block(st.body, True)
                    if "break" not in res:
                        fail(st, "no break test in the loop", rel)
                    res["theta_next"] = S.env[theta_name]
                    # after the loop theta is again a symbol (its final value)
                    S.env[theta_name] = ("v", "theta")
                    res["slope_loop"] = S.env.get("slope_e_pg")
                elif isinstance(st, ast.Return) and not in_loop:
                    if not (isinstance(st.value, ast.Call) and S.dotted(st.value.func) == "Return"):
                        fail(st, "Solve must return Return(...)", rel)
                    fields = ["sig", "dGamma", "phi", "theta", "y", "d", "slope", "drdtheta", "active"]
                    if len(st.value.args) == len(fields) + 1:
                        fields = fields + ["converged"]
                    if len(st.value.args) != len(fields) or st.value.keywords:
                        fail(st, "Return arity", rel)
                    for f, a in zip(fields, st.value.args):
                        res["ret_" + f] = S.ex(a)
                else:
                    fail(st, "statement %s" % type(st).__name__, rel)
        block(fn.body, False)
        if not loop_seen or phi_calls < 3:
            raise TranslateError("%s: Solve: expected an initial _Phi, one per iteration and a final one" % rel)
        if res["active"] is None or res["active"][0] != "lt":
            raise TranslateError("%s: Solve: active_e_pg must be a comparison decided before the loop" % rel)
        out["rate" if with_rate else "norate"] = res
    out["line"] = fn.lineno
    out["file"] = rel
    return out


# ---------------------------------------------------------------------------------------------
# small exact matrix evaluator for _kelvin.ONE / IDEV and the yield surfaces' P
# ---------------------------------------------------------------------------------------------
def mat_eval(node, consts, src, rel, symbolic=False, S=None):
    def dotted(n):
        if isinstance(n, ast.Name):
            return n.id
        if isinstance(n, ast.Attribute):
            return dotted(n.value) + "." + n.attr
        return None

    def scal(n):
        if symbolic:
            return S.ex(n)
        if isinstance(n, ast.Constant) and isinstance(n.value, (int, float)):
            return const(n, src)[1]
        if isinstance(n, ast.UnaryOp) and isinstance(n.op, ast.USub):
            return -scal(n.operand)
        fail(n, "scalar %s" % type(n).__name__, rel)

    def go(n):
        if isinstance(n, ast.Constant):
            return scal(n)
        name = dotted(n)
        if name is not None:
            key = name.split(".")[-1]
            if key in consts:
                return consts[key]
            fail(n, "unknown constant %s" % name, rel)
        if isinstance(n, ast.Call):
            f = dotted(n.func)
            if f == "np.array" and len(n.args) == 1 and isinstance(n.args[0], ast.List):
                rows = n.args[0].elts
                if rows and isinstance(rows[0], ast.List):
                    return [[scal(e) for e in r.elts] for r in rows]
                return [scal(e) for e in rows]
            if f == "np.eye" and len(n.args) == 1 and isinstance(n.args[0], ast.Constant):
                k = n.args[0].value
                return [[F(int(i == j)) for j in range(k)] for i in range(k)]
            if f == "np.outer" and len(n.args) == 2:
                a, b = go(n.args[0]), go(n.args[1])
                return [[x * y for y in b] for x in a]
            fail(n, "call %s" % f, rel)
        if isinstance(n, ast.BinOp):
            a, b = go(n.left), go(n.right)

            def bc(op, a, b):
                if isinstance(a, list) and isinstance(b, list):
                    return [bc(op, x, y) for x, y in zip(a, b)]
                if isinstance(a, list):
                    return [bc(op, x, b) for x in a]
                if isinstance(b, list):
                    return [bc(op, a, y) for y in b]
                return op(a, b)
            import operator
            for k, op in ((ast.Add, operator.add), (ast.Sub, operator.sub), (ast.Mult, operator.mul), (ast.Div, operator.truediv)):
                if isinstance(n.op, k):
                    return bc(op, a, b)
        fail(n, "matrix expression %s" % type(n).__name__, rel)
    return go(node)


def read_yield(repo):
    ktree, ksrc, krel = parse(repo, "EasyFEA/Models/_kelvin.py")
    consts = {}
    for st in ktree.body:
        if isinstance(st, ast.Assign) and isinstance(st.targets[0], ast.Name) and st.targets[0].id in ("ONE", "IDEV"):
            consts[st.targets[0].id] = mat_eval(st.value, consts, ksrc, krel)
    if set(consts) != {"ONE", "IDEV"}:
        raise TranslateError("%s: ONE / IDEV not found" % krel)
    ytree, ysrc, yrel = parse(repo, "EasyFEA/Models/InElastic/Yield.py")
    out = {"ONE": consts["ONE"], "IDEV": consts["IDEV"], "file": yrel}
    # VonMises: return YieldSurface(f, N, sigma_y, _dNormal_J2, <P>)
    vm = find_func(ytree, "VonMises")
    ret = [s for s in vm.body if isinstance(s, ast.Return)]
    if len(ret) != 1 or not isinstance(ret[0].value, ast.Call) or len(ret[0].value.args) != 5:
        fail(vm, "VonMises must return YieldSurface(f, N, scale, dNdSig, P)", yrel)
    out["vmP"] = mat_eval(ret[0].value.args[4], consts, ysrc, yrel)
    out["vm_line"] = ret[0].lineno
    # Hill: P = np.array([[...]]) in F, G, H, L, M, N
    hill = find_func(ytree, "Hill")
    S = Sym(ysrc, yrel, {}, [])
    S.env = {k: ("v", k) for k in "FGHLMN"}
    P = None
    for st in hill.body:
        if isinstance(st, ast.Assign) and isinstance(st.targets[0], ast.Name) and st.targets[0].id == "P":
            P = mat_eval(st.value, {}, ysrc, yrel, symbolic=True, S=S)
            out["hill_line"] = st.lineno
    hret = [s for s in hill.body if isinstance(s, ast.Return)]
    if P is None or len(hret) != 1 or len(hret[0].value.args) != 5 or not (isinstance(hret[0].value.args[4], ast.Name) and hret[0].value.args[4].id == "P"):
        fail(hill, "Hill must build P and return it as the 5th field", yrel)
    out["hillP"] = P
    # DruckerPrager must not declare a quadratic form
    dp = find_func(ytree, "DruckerPrager")
    dret = [s for s in dp.body if isinstance(s, ast.Return)]
    out["dp_has_P"] = not (len(dret) == 1 and len(dret[0].value.args) == 4 and not dret[0].value.keywords)
    return out


# ---------------------------------------------------------------------------------------------
# who writes the committed state
# ---------------------------------------------------------------------------------------------
def _attr_chain(n):
    if isinstance(n, ast.Attribute):
        b = _attr_chain(n.value)
        return None if b is None else b + "." + n.attr
    if isinstance(n, ast.Name):
        return n.id
    return None


def writers(fn):
    """names (dotted) stored into by a function: plain/augmented/subscript assignments and
    mutating method calls."""
    W = set()
    MUT = {"update", "clear", "pop", "popitem", "setdefault", "fill", "put", "itemset", "resize", "sort", "__setitem__", "__iadd__"}
    for n in ast.walk(fn):
        tgts = []
        if isinstance(n, ast.Assign):
            tgts = n.targets
        elif isinstance(n, (ast.AugAssign, ast.AnnAssign)):
            tgts = [n.target]
        elif isinstance(n, ast.Delete):
            tgts = n.targets
        for t in tgts:
            for e in (t.elts if isinstance(t, ast.Tuple) else [t]):
                base = e
                sub = False
                while isinstance(base, ast.Subscript):
                    base = base.value
                    sub = True
                c = _attr_chain(base)
                if c:
                    W.add(c + ("[]" if sub else ""))
        if isinstance(n, ast.Call) and isinstance(n.func, ast.Attribute) and n.func.attr in MUT:
            c = _attr_chain(n.func.value)
            if c:
                W.add(c + ".%s()" % n.func.attr)
        if isinstance(n, ast.Call):
            for k in n.keywords:
                if k.arg == "out":
                    c = _attr_chain(k.value)
                    if c:
                        W.add(c + "[out=]")
    return W


def is_initialiser(fn, src):
    """A method whose ONLY stores into the state dicts are `self.__z = {}` and `self.__zOld = {}`
    (both, plain assignments of an empty dict): same effect as __init__ on the material history."""
    got = {}
    for n in ast.walk(fn):
        if isinstance(n, (ast.AugAssign, ast.Delete)):
            tg = [n.target] if isinstance(n, ast.AugAssign) else n.targets
            if any((_attr_chain(t if not isinstance(t, ast.Subscript) else t.value) or "").startswith("self.__z") for t in tg):
                return False
        if isinstance(n, (ast.Assign, ast.AnnAssign)):
            tgts = n.targets if isinstance(n, ast.Assign) else [n.target]
            for t in tgts:
                for e in (t.elts if isinstance(t, ast.Tuple) else [t]):
                    base = e
                    while isinstance(base, ast.Subscript):
                        base = base.value
                    c = _attr_chain(base) or ""
                    if c in ("self.__z", "self.__zOld"):
                        v = n.value
                        empty = (isinstance(v, ast.Dict) and not v.keys) or (isinstance(v, ast.Call) and _attr_chain(v.func) == "dict" and not v.args and not v.keywords)
                        if e is not base or isinstance(t, ast.Tuple) or not empty:
                            return False
                        got[c] = got.get(c, 0) + 1
    w = {x for x in writers(fn) if x.startswith("self.__z")}
    return got.keys() == {"self.__z", "self.__zOld"} and w == {"self.__z", "self.__zOld"}


def memo_properties(cls, src):
    """Methods of a class that are pure memos keyed by their input:

        K = <key expression>
        c = self.<attr>
        if c is None or not np.array_equal(c[0], K):      (or  c[0] != K)
            c = (K, <value>)
            self.<attr> = c
        return c[1]

    i.e. the only attribute written is a (key, value) pair, and it is re-used only after its key
    has been compared with the CURRENT value of the same key expression.  Returns
    {method: {"attr", "key", "value"}}; anything that deviates is simply not a memo."""
    out = {}
    for fn in cls.body:
        if not isinstance(fn, ast.FunctionDef):
            continue
        stores = [n for n in ast.walk(fn) if isinstance(n, (ast.Assign, ast.AugAssign, ast.AnnAssign, ast.Delete))
                  and any((_attr_chain(t if not isinstance(t, ast.Subscript) else t.value) or "").startswith("self.")
                          for t in (n.targets if isinstance(n, (ast.Assign, ast.Delete)) else [n.target]))]
        if len(stores) != 1 or not isinstance(stores[0], ast.Assign):
            continue
        st = stores[0]
        if len(st.targets) != 1 or not isinstance(st.targets[0], ast.Attribute) or not isinstance(st.value, ast.Name):
            continue
        attr = _attr_chain(st.targets[0])
        cname = st.value.id
        body = [b for b in fn.body if not (isinstance(b, ast.Expr) and isinstance(b.value, ast.Constant))]
        # locate: K = expr ; c = self.attr ; if ...: c = (K, v); self.attr = c ; return c[1]
        binds = {}
        ifs = [b for b in body if isinstance(b, ast.If)]
        guard = [b for b in ifs if st in b.body]
        if len(guard) != 1:
            continue
        g = guard[0]
        for b in body[:body.index(g)]:
            if isinstance(b, ast.Assign) and len(b.targets) == 1 and isinstance(b.targets[0], ast.Name):
                binds[b.targets[0].id] = b.value
        if cname not in binds or _attr_chain(binds[cname]) != attr or g.orelse:
            continue
        gb = g.body
        if len(gb) != 2 or gb[1] is not st or not (isinstance(gb[0], ast.Assign) and isinstance(gb[0].targets[0], ast.Name) and gb[0].targets[0].id == cname
                                                       and isinstance(gb[0].value, ast.Tuple) and len(gb[0].value.elts) == 2 and isinstance(gb[0].value.elts[0], ast.Name)):
            continue
        kname = gb[0].value.elts[0].id
        if kname not in binds or kname == cname:
            continue
        # guard: `c is None or not <eq>(c[0], K)`
        t = g.test
        ok = False
        if isinstance(t, ast.BoolOp) and isinstance(t.op, ast.Or) and len(t.values) == 2:
            a, b2 = t.values
            isnone = (isinstance(a, ast.Compare) and isinstance(a.left, ast.Name) and a.left.id == cname and len(a.ops) == 1
                      and isinstance(a.ops[0], ast.Is) and isinstance(a.comparators[0], ast.Constant) and a.comparators[0].value is None)

            def key0(n):
                return (isinstance(n, ast.Subscript) and isinstance(n.value, ast.Name) and n.value.id == cname
                        and isinstance(n.slice, ast.Constant) and n.slice.value == 0)

            def isK(n):
                return isinstance(n, ast.Name) and n.id == kname
            differs = False
            if isinstance(b2, ast.UnaryOp) and isinstance(b2.op, ast.Not) and isinstance(b2.operand, ast.Call) and _attr_chain(b2.operand.func) in ("np.array_equal", "numpy.array_equal") and len(b2.operand.args) == 2:
                x, y = b2.operand.args
                differs = (key0(x) and isK(y)) or (key0(y) and isK(x))
            ok = isnone and differs
        if not ok:
            continue
        # the key variable must not be re-bound between its binding and the guard, and the method
        # must return c[1]
        rets = [n for n in ast.walk(fn) if isinstance(n, ast.Return)]
        last = body[-1]
        if not (isinstance(last, ast.Return) and isinstance(last.value, ast.Subscript) and isinstance(last.value.value, ast.Name) and last.value.value.id == cname
                and isinstance(last.value.slice, ast.Constant) and last.value.slice.value == 1):
            continue
        # every other return happens BEFORE the cache is touched
        early_ok = all(r is last or r.lineno < g.lineno for r in rets)
        rebinding = sum(1 for n in ast.walk(fn) if isinstance(n, ast.Assign) and any(isinstance(t2, ast.Name) and t2.id == kname for t2 in n.targets))
        if not early_ok or rebinding != 1:
            continue
        out[fn.name] = {"attr": attr, "key": ast.get_source_segment(src, binds[kname]), "value": ast.get_source_segment(src, gb[0].value.elts[1]), "line": fn.lineno}
    return out


def read_state_writers(repo):
    tree, src, rel = parse(repo, "EasyFEA/Simulations/_inelastic.py")
    cls = [n for n in tree.body if isinstance(n, ast.ClassDef) and n.name == "InElastic"]
    if not cls:
        raise TranslateError("%s: class InElastic not found" % rel)
    sim = {}
    for fn in cls[0].body:
        if isinstance(fn, ast.FunctionDef):
            w = {x for x in writers(fn) if x.startswith("self.__z")}
            if w:
                sim[fn.name] = sorted(w)
    initialisers = sorted(fn.name for fn in cls[0].body if isinstance(fn, ast.FunctionDef) and fn.name in sim and is_initialiser(fn, src))
    btree, bsrc, brel = parse(repo, "EasyFEA/Models/InElastic/_behavior.py")
    bcls = [n for n in btree.body if isinstance(n, ast.ClassDef) and n.name == "Behavior"][0]
    beh = {}
    for fn in bcls.body:
        if isinstance(fn, ast.FunctionDef):
            params = {a.arg for a in fn.args.args}
            w = set()
            for x in writers(fn):
                base = x.split("[")[0].split(".")[0]
                full = x.split("[")[0]
                if x.endswith("[]") or x.endswith("()") or x.endswith("[out=]"):
                    # a store INTO an object: only harmful if the object is an argument that has
                    # not been rebound to a fresh copy first
                    if base in params and base != "self":
                        w.add(x)
                if full.startswith("self.") and fn.name != "__init__":
                    w.add(x)
            beh[fn.name] = sorted(w)
    # pure memos: accepted attribute writes, provided the memo attribute is touched nowhere else
    # (besides its initialisation to None in __init__)
    memos = memo_properties(bcls, bsrc)
    accepted = {}
    for m, info in memos.items():
        attr = info["attr"].split(".", 1)[1]
        clean = True
        for fn in bcls.body:
            if not isinstance(fn, ast.FunctionDef) or fn.name == m:
                continue
            for n in ast.walk(fn):
                if isinstance(n, ast.Attribute) and n.attr == attr:
                    if fn.name == "__init__" and isinstance(n.ctx, ast.Store):
                        continue
                    clean = False
        if clean and beh.get(m) == [info["attr"]]:
            accepted[m] = info
            beh[m] = []
    return {"sim": sim, "behavior": beh, "sim_file": rel, "beh_file": brel, "initialisers": initialisers, "memos": accepted}


def rebinds_before_store(repo):
    """For Behavior methods that store into a parameter, check the parameter was rebound to a
    `.copy()` / fresh array first (e.g. __Plane_stress_strain's eps6_e_pg)."""
    btree, bsrc, brel = parse(repo, "EasyFEA/Models/InElastic/_behavior.py")
    bcls = [n for n in btree.body if isinstance(n, ast.ClassDef) and n.name == "Behavior"][0]
    bad = []
    for fn in bcls.body:
        if not isinstance(fn, ast.FunctionDef):
            continue
        params = {a.arg for a in fn.args.args} - {"self"}
        fresh = set()
        for st in ast.walk(fn):
            pass
        # statement order matters: walk the body linearly (nested blocks in order)
        def visit(stmts):
            for st in stmts:
                if isinstance(st, ast.Assign) and len(st.targets) == 1 and isinstance(st.targets[0], ast.Name):
                    nm = st.targets[0].id
                    seg = ast.get_source_segment(bsrc, st.value) or ""
                    if nm in params and (seg.endswith(".copy()") or seg.startswith("FeArray.zeros") or seg.startswith("FeArray.asfearray") or seg.startswith("self.State_zeros") or seg.startswith("self.__State")):
                        fresh.add(nm)
                for t in (st.targets if isinstance(st, ast.Assign) else [st.target] if isinstance(st, ast.AugAssign) else []):
                    base, sub = t, False
                    while isinstance(base, ast.Subscript):
                        base, sub = base.value, True
                    if isinstance(t, ast.AugAssign):
                        sub = True
                    if isinstance(base, ast.Name) and base.id in params and (sub or isinstance(st, ast.AugAssign)) and base.id not in fresh:
                        bad.append("%s:%d %s stores into its argument %s" % (brel, st.lineno, fn.name, base.id))
                for fld in ("body", "orelse", "finalbody"):
                    if hasattr(st, fld) and isinstance(getattr(st, fld), list):
                        visit(getattr(st, fld))
        visit(fn.body)
    return bad


# ---------------------------------------------------------------------------------------------
def read_spectral_flag(repo):
    """What Behavior.__Spectral returns as `converged`: 'ones' (unconditional) or 'solve'."""
    tree, src, rel = parse(repo, "EasyFEA/Models/InElastic/_behavior.py")
    fn = find_func(tree, "__Spectral", "Behavior")
    ret = [s_ for s_ in fn.body if isinstance(s_, ast.Return)]
    if len(ret) != 1 or not isinstance(ret[0].value, ast.Tuple) or len(ret[0].value.elts) != 4:
        fail(fn, "__Spectral must return (sig, C_alg, z, converged)", rel)
    e = ret[0].value.elts[3]
    if isinstance(e, ast.Name):
        for s_ in fn.body:
            if isinstance(s_, ast.Assign) and isinstance(s_.targets[0], ast.Name) and s_.targets[0].id == e.id:
                e = s_.value
    seg = ast.get_source_segment(src, e) or ""
    pnew = None
    for s_ in fn.body:
        if isinstance(s_, ast.Assign) and isinstance(s_.targets[0], ast.Subscript):
            sseg = ast.get_source_segment(src, s_.targets[0])
            if "A.start" in sseg:
                pnew = ast.get_source_segment(src, s_.value)
    if pnew is None or pnew.replace(" ", "") != "pOld_e_pg+res.dGamma":
        fail(fn, "__Spectral must store p_new = pOld + res.dGamma (found %r)" % pnew, rel)
    if seg.replace(" ", "").startswith("np.ones("):
        return {"kind": "ones", "line": ret[0].lineno, "file": rel}
    if "res.converged" in seg and "|" not in seg and "ones" not in seg:
        return {"kind": "solve", "line": ret[0].lineno, "file": rel}
    fail(ret[0], "unrecognised convergence flag `%s`" % seg, rel)


def read_tangent(repo):
    """_spectral.Tangent, reduced to its eigen-coordinate core.

    Objects are tracked in factored form (T, Ti, C constant maps; lower-case = per-component
    expressions in lam, y, d and the scalars of `res`):
        T @ v                      -> ("Tv", v)          Ti.T @ v  -> ("TiTv", v)
        C @ (Ti.T @ v)             -> ("CTiTv", v)
        (T * d[..., None, :]) @ (Ti @ C)   -> ("TDTiC", d)
        TensorProd(s * (T @ a), C @ (Ti.T @ b)) = T (s a (x) b) Ti C   (C symmetric) -> ("TabTiC", s*a, b)
    so that  C_alg = T [ diag(dd) + a (x) b ] Ti C ;  returns dd, a, b."""
    tree, src, rel = parse(repo, "EasyFEA/Models/InElastic/_spectral.py")
    fn = find_func(tree, "Tangent")
    params = [a.arg for a in fn.args.args]
    if params != ["eigen", "res", "C_e_pg"]:
        fail(fn, "Tangent(eigen, res, C_e_pg) expected", rel)
    S = Sym(src, rel, {}, [])
    attr = {"eigen.lam": ("v", "lam"), "res.d": ("v", "d"), "res.y": ("v", "y"), "res.phi": ("v", "phi"), "res.theta": ("v", "theta"),
            "res.slope": ("v", "slope"), "res.drdtheta": ("v", "drdtheta"), "res.active": ("b", "active")}
    obj = {}      # name -> factored object

    def field(n):
        """_Field(eigen.T | eigen.Ti | eigen.Ti.T, <anything>) -> 'T' | 'Ti' | 'TiT'"""
        if isinstance(n, ast.Call) and S_dotted(n.func) == "_Field" and len(n.args) == 2:
            return {"eigen.T": "T", "eigen.Ti": "Ti", "eigen.Ti.T": "TiT"}.get(S_dotted(n.args[0]))
        return None

    def field_of(n):
        f = field(n)
        if f is not None:
            return f
        if isinstance(n, ast.Name) and n.id in obj and obj[n.id][0] == "FIELD":
            return obj[n.id][1]
        return None

    class TS(Sym):
        def ex(self, n):
            d = S_dotted(n)
            if d in attr:
                return attr[d]
            return Sym.ex(self, n)
    S.__class__ = TS

    def scal(n):
        return S.ex(n)

    def evalobj(n):
        if isinstance(n, ast.Name) and n.id in obj:
            return obj[n.id]
        if isinstance(n, ast.Name) and n.id == "C_e_pg":
            return ("C",)
        if field(n) is not None:
            return ("FIELD", field(n))
        if isinstance(n, ast.BinOp) and isinstance(n.op, ast.MatMult):
            f = field_of(n.left)
            if f == "T":
                return ("Tv", scal(n.right))
            if f == "TiT":
                return ("TiTv", scal(n.right))
            if f == "Ti" and isinstance(n.right, ast.Name) and n.right.id == "C_e_pg":
                return ("TiC",)
            L = evalobj(n.left)
            R = evalobj(n.right)
            if L == ("C",) and R[0] == "TiTv":
                return ("CTiTv", R[1])
            if L[0] == "Tdiag" and R == ("TiC",):
                return ("TDTiC", L[1])
            fail(n, "matrix product of %s and %s" % (L[0], R[0]), rel)
        if isinstance(n, ast.BinOp) and isinstance(n.op, ast.Mult):
            # T * d[..., None, :]   (scale the columns of T)   or   scalar * (T @ v)
            if field_of(n.left) == "T" and isinstance(n.right, ast.Subscript) and (ast.get_source_segment(src, n.right) or "").replace(" ", "").endswith("[...,None,:]"):
                return ("Tdiag", scal(n.right.value))
            try:
                R = evalobj(n.right)
            except TranslateError:
                R = None
            if R is not None and R[0] == "Tv":
                return ("Tv", ("*", scal(n.left), R[1]))
            fail(n, "product in Tangent", rel)
        if isinstance(n, ast.BinOp) and isinstance(n.op, ast.Div):
            L = evalobj(n.left)
            if L[0] == "TiTv":
                return ("TiTv", ("/", L[1], scal(n.right)))
            fail(n, "quotient in Tangent", rel)
        if isinstance(n, ast.BinOp) and isinstance(n.op, ast.Add):
            L, R = evalobj(n.left), evalobj(n.right)
            if L[0] == "TDTiC" and R[0] == "TabTiC":
                return ("CORE", L[1], R[1], R[2])
            if R[0] == "TDTiC" and L[0] == "TabTiC":
                return ("CORE", R[1], L[1], L[2])
            fail(n, "sum of %s and %s" % (L[0], R[0]), rel)
        if isinstance(n, ast.Call) and S_dotted(n.func) == "TensorProd" and len(n.args) == 2:
            A, B = evalobj(n.args[0]), evalobj(n.args[1])
            if A[0] == "Tv" and B[0] == "CTiTv":
                return ("TabTiC", A[1], B[1])
            fail(n, "TensorProd of %s and %s" % (A[0], B[0]), rel)
        fail(n, "object expression %s" % type(n).__name__, rel)

    result = None
    for st in fn.body:
        if isinstance(st, ast.Expr) and isinstance(st.value, ast.Constant):
            continue
        if isinstance(st, ast.Assign) and len(st.targets) == 1 and isinstance(st.targets[0], ast.Tuple) and isinstance(st.value, ast.Tuple):
            for t, v in zip(st.targets[0].elts, st.value.elts):
                S.env[t.id] = S.ex(v)
            continue
        if isinstance(st, ast.Assign) and len(st.targets) == 1 and isinstance(st.targets[0], ast.Name):
            nm = st.targets[0].id
            try:
                S.env[nm] = S.ex(st.value)
                continue
            except TranslateError:
                pass
            obj[nm] = evalobj(st.value)
            continue
        if isinstance(st, ast.Return):
            v = st.value
            ok = (isinstance(v, ast.Call) and S_dotted(v.func) == "np.where" and len(v.args) == 3
                  and (ast.get_source_segment(src, v.args[0]) or "").replace(" ", "") == "res.active[...,None,None]"
                  and isinstance(v.args[2], ast.Name) and v.args[2].id == "C_e_pg")
            if not ok:
                fail(st, "Tangent must return np.where(res.active[..., None, None], C_alg, C_e_pg)", rel)
            result = evalobj(v.args[1])
            continue
        fail(st, "statement %s in Tangent" % type(st).__name__, rel)
    if result is None or result[0] != "CORE":
        raise TranslateError("%s: Tangent does not reduce to T [diag + a (x) b] Ti C" % rel)
    return {"diag": result[1], "a": result[2], "b": result[3], "line": fn.lineno, "file": rel}


def read_hardening(repo):
    """IsotropicHardening.Linear / Voce: the three lambdas (psi, R, dR) and the constructor's
    parameter assertions (as source text, for the record)."""
    tree, src, rel = parse(repo, "EasyFEA/Models/InElastic/IsotropicHardening.py")
    out = {"file": rel}
    for name, params in (("Linear", ["H"]), ("Voce", ["Q", "b"])):
        fn = find_func(tree, name)
        if [a.arg for a in fn.args.args] != params:
            fail(fn, "%s%s expected" % (name, tuple(params)), rel)
        rets = [n for n in fn.body if isinstance(n, ast.Return)]
        if len(rets) != 1 or not (isinstance(rets[0].value, ast.Call) and S_dotted(rets[0].value.func) == "IsotropicHardening" and len(rets[0].value.args) == 3 and not rets[0].value.keywords):
            fail(fn, "%s must return IsotropicHardening(psi, R, dR)" % name, rel)
        if any(isinstance(n, ast.Assign) for n in fn.body):
            fail(fn, "%s re-binds a name" % name, rel)
        trees = []
        for lam_ in rets[0].value.args:
            if not (isinstance(lam_, ast.Lambda) and len(lam_.args.args) == 1):
                fail(lam_, "lambda of one argument expected", rel)
            S = Sym(src, rel, {}, [])
            S.env = {q: ("v", q) for q in params}
            S.env[lam_.args.args[0].arg] = ("v", "p")
            trees.append(S.ex(lam_.body))
        asserts = [ast.get_source_segment(src, n.test) for n in fn.body if isinstance(n, ast.Assert)]
        out[name] = {"psi": trees[0], "R": trees[1], "dR": trees[2], "asserts": asserts, "params": params, "line": fn.lineno}
    return out


class SymSub(Sym):
    """Sym that also resolves subscripted fields (`x[..., ZZ]`) through a table of source texts."""

    def __init__(self, src, fname, table):
        Sym.__init__(self, src, fname, {}, [])
        self.table = table

    def ex(self, n):
        if isinstance(n, ast.Subscript):
            seg = (ast.get_source_segment(self.src, n) or "").replace(" ", "")
            if seg in self.table:
                return self.table[seg]
            fail(n, "subscript %s" % seg, self.fname)
        return Sym.ex(self, n)


def read_plane_stress(repo):
    """Behavior.__Plane_stress_strain: the break test must be `np.max(<per-point quantity>) < tol`
    (a maximum over the field of a per-point expression), the update a per-point expression."""
    tree, src, rel = parse(repo, "EasyFEA/Models/InElastic/_behavior.py")
    fn = find_func(tree, "__Plane_stress_strain", "Behavior")
    params = [a.arg for a in fn.args.args]
    if len(params) != 4:
        fail(fn, "__Plane_stress_strain(self, eps6, zOld, dt) expected", rel)
    eps_name = params[1]
    loops = [st for st in fn.body if isinstance(st, ast.For)]
    if len(loops) != 1 or any(isinstance(n, (ast.For, ast.While)) for st in loops[0].body for n in ast.walk(st)):
        fail(fn, "exactly one (un-nested) loop expected", rel)
    loop = loops[0]
    if (ast.get_source_segment(src, loop.iter) or "").replace(" ", "") != "range(self._maxIter)":
        fail(loop, "loop header", rel)
    if not (len(loop.orelse) == 1 and isinstance(loop.orelse[0], ast.Raise)):
        fail(loop, "the loop must raise when it runs out of iterations (for/else)", rel)
    # the strain is copied before it is written
    copied = any(isinstance(st, ast.Assign) and isinstance(st.targets[0], ast.Name) and st.targets[0].id == eps_name
                 and (ast.get_source_segment(src, st.value) or "").replace(" ", "") == eps_name + ".copy()" for st in fn.body[:fn.body.index(loop)])
    if not copied:
        fail(fn, "%s must be copied before the loop" % eps_name, rel)
    ret = [st for st in fn.body if isinstance(st, ast.Return)]
    if len(ret) != 1 or not (isinstance(ret[0].value, ast.Name) and ret[0].value.id == eps_name):
        fail(fn, "must return the strain it iterated on", rel)
    S = None
    res = {}
    stage = 0
    for st in loop.body:
        if isinstance(st, ast.Expr) and isinstance(st.value, ast.Constant):
            continue
        if stage == 0:
            ok = (isinstance(st, ast.Assign) and isinstance(st.targets[0], ast.Tuple) and isinstance(st.value, ast.Call)
                  and (S_dotted(st.value.func) or "").endswith("__Integrate_3d") and len(st.value.args) == 3
                  and isinstance(st.value.args[0], ast.Name) and st.value.args[0].id == eps_name
                  and isinstance(st.value.args[1], ast.Name) and st.value.args[1].id == params[2])
            if not ok or len(st.targets[0].elts) != 4 or not all(isinstance(e, ast.Name) for e in st.targets[0].elts[:2]):
                fail(st, "the loop must start with sig, C, _, _ = self.__Integrate_3d(%s, %s, dt)" % (eps_name, params[2]), rel)
            sig, C = st.targets[0].elts[0].id, st.targets[0].elts[1].id
            table = {"%s[...,ZZ]" % sig: ("v", "r"), "%s[...,ZZ,ZZ]" % C: ("v", "czz"), "%s[...,ZZ]" % eps_name: ("v", "ezz")}
            S = SymSub(src, rel, table)
            S.env = {"tol": ("v", "tol")}
            stage = 1
            continue
        if isinstance(st, ast.Assign) and len(st.targets) == 1 and isinstance(st.targets[0], ast.Name):
            if st.targets[0].id in (eps_name, "tol"):
                fail(st, "re-binding of %s inside the loop" % st.targets[0].id, rel)
            S.env[st.targets[0].id] = S.ex(st.value)
        elif isinstance(st, ast.If) and len(st.body) == 1 and isinstance(st.body[0], ast.Break) and not st.orelse:
            if "small" in res or "update" in res:
                fail(st, "the break test must come once, before the update", rel)
            t = S.ex(st.test)
            if not (t[0] == "lt" and t[1][0] == "allmax") or "allmax" in repr(t[1][1]) or "allmax" in repr(t[2]):
                fail(st, "break test `%s` is not `np.max(<per-point quantity>) < bound`: it does not bound every point of the field" % ast.get_source_segment(src, st.test), rel)
            res["small"] = ("lt", t[1][1], t[2])
        elif isinstance(st, ast.Assign) and len(st.targets) == 1 and isinstance(st.targets[0], ast.Subscript):
            seg = (ast.get_source_segment(src, st.targets[0]) or "").replace(" ", "")
            if seg != "%s[...,ZZ]" % eps_name or "update" in res:
                fail(st, "store into %s" % seg, rel)
            res["update"] = S.ex(st.value)
        else:
            fail(st, "statement %s in the plane-stress loop" % type(st).__name__, rel)
    if "small" not in res or "update" not in res:
        raise TranslateError("%s: plane-stress loop needs a break test and an eps_zz update" % rel)
    res.update(line=fn.lineno, file=rel)
    return res


def S_dotted(node):
    if isinstance(node, ast.Name):
        return node.id
    if isinstance(node, ast.Attribute):
        b = S_dotted(node.value)
        return None if b is None else b + "." + node.attr
    return None


def read_scale_tie(repo):
    """What `_spectral.Solve` receives as its `sigma_y` must BE the yield stress of the surface.

    Behavior.__Spectral passes an attribute of the surface (`self.__yield.<field>`); for every
    surface that declares a quadratic form P (the only ones that reach the spectral path) the
    constructor must fill that field with the very name its yield function subtracts
    (`f = phi - sigma_y - R`).  Anything else (a floored / rescaled / renamed value) fails closed."""
    btree, bsrc, brel = parse(repo, "EasyFEA/Models/InElastic/_behavior.py")
    fn = find_func(btree, "__Spectral", "Behavior")
    calls = [n for n in ast.walk(fn) if isinstance(n, ast.Call) and S_dotted(n.func) == "_spectral.Solve"]
    if len(calls) != 1:
        fail(fn, "__Spectral must call _spectral.Solve exactly once", brel)
    call = calls[0]
    stree, ssrc, srel = parse(repo, "EasyFEA/Models/InElastic/_spectral.py")
    sparams = [a.arg for a in find_func(stree, "Solve").args.args]
    if "sigma_y" not in sparams:
        raise TranslateError("%s: Solve has no sigma_y parameter" % srel)
    idx = sparams.index("sigma_y")
    arg = None
    if idx < len(call.args):
        arg = call.args[idx]
    for k in call.keywords:
        if k.arg == "sigma_y":
            arg = k.value
    seg = (ast.get_source_segment(bsrc, arg) or "").replace(" ", "") if arg is not None else ""
    if not seg.startswith("self.__yield.") or seg.count(".") != 2:
        fail(call, "the yield stress handed to _spectral.Solve is `%s`, not a field of the yield surface" % seg, brel)
    field = seg.split(".")[-1]
    ytree, ysrc, yrel = parse(repo, "EasyFEA/Models/InElastic/Yield.py")
    ycls = [n for n in ytree.body if isinstance(n, ast.ClassDef) and n.name == "YieldSurface"]
    if not ycls:
        raise TranslateError("%s: YieldSurface not found" % yrel)
    fields = [n.target.id for n in ycls[0].body if isinstance(n, ast.AnnAssign) and isinstance(n.target, ast.Name)]
    if field not in fields or "P" not in fields:
        raise TranslateError("%s: YieldSurface has no field %s" % (yrel, field))
    fi, pi = fields.index(field), fields.index("P")
    tied = []
    for ctor in ytree.body:
        if not isinstance(ctor, ast.FunctionDef):
            continue
        rets = [n for n in ctor.body if isinstance(n, ast.Return) and isinstance(n.value, ast.Call) and S_dotted(n.value.func) == "YieldSurface"]
        if not rets:
            continue
        for r in rets:
            a = r.value.args
            kw = {k.arg: k.value for k in r.value.keywords}
            P = a[pi] if pi < len(a) else kw.get("P")
            if P is None or (isinstance(P, ast.Constant) and P.value is None):
                continue          # no quadratic form: never takes the spectral path
            val = a[fi] if fi < len(a) else kw.get(field)
            if not isinstance(val, ast.Name) or val.id not in [x.arg for x in ctor.args.args]:
                fail(r, "%s fills YieldSurface.%s with `%s`, but _spectral.Solve uses that field as the yield stress: it must be the constructor's own yield-stress parameter" % (ctor.name, field, ast.get_source_segment(ysrc, val) if val is not None else None), yrel)
            # ... and that parameter is what the yield function subtracts
            fdefs = [n for n in ctor.body if isinstance(n, ast.FunctionDef) and n.name == "f"]
            okf = False
            for fd in fdefs:
                for rr in [n for n in ast.walk(fd) if isinstance(n, ast.Return)]:
                    e = rr.value
                    # phi - <val> - R
                    if isinstance(e, ast.BinOp) and isinstance(e.op, ast.Sub) and isinstance(e.left, ast.BinOp) and isinstance(e.left.op, ast.Sub) \
                            and isinstance(e.left.right, ast.Name) and e.left.right.id == val.id:
                        okf = True
            if not okf:
                fail(ctor, "%s: the yield function does not read `phi - %s - R`" % (ctor.name, val.id), yrel)
            # the parameter must not be re-bound inside the constructor
            if any(isinstance(n, ast.Assign) and any(isinstance(t, ast.Name) and t.id == val.id for t in n.targets) for n in ast.walk(ctor)):
                fail(ctor, "%s re-binds %s" % (ctor.name, val.id), yrel)
            tied.append(ctor.name)
    if not tied:
        raise TranslateError("%s: no quadratic yield surface found" % yrel)
    return {"field": field, "surfaces": tied}


def read_all(repo):
    return {"phi": read_phi(repo), "solve": read_solve(repo), "yield": read_yield(repo),
            "writers": read_state_writers(repo), "arg_stores": rebinds_before_store(repo),
            "flag": read_spectral_flag(repo), "ps": read_plane_stress(repo), "tangent": read_tangent(repo), "scale": read_scale_tie(repo), "hardening": read_hardening(repo)}


def emit_coq(T):
    L = ["(* Gen_C19.v — generated by translator/C19_inelastic.py from the working tree; do not edit *)",
         "From Coq Require Import Reals List.", "From EFModel Require Import C19_Return1D.", "Import ListNotations.", "Open Scope R_scope.", ""]
    ph = T["phi"]
    s0, s1 = ph["summands"]
    # per-term formulas, with d and w kept as intermediate symbols exactly as the source binds them
    L.append("(* _Phi, %s line %d *)" % (ph["file"], ph["line"]))
    L.append(define("gen_wterm", s0, ["lam", "y", "theta"]))
    L.append(define("gen_wldterm", s1, ["lam", "y", "theta"]))
    L.append(define("gen_phi", ph["phi"], ["SUM0"]))
    L.append(define("gen_dphi", ph["dphi"], ["SUM0", "SUM1"]))
    so = T["solve"]
    order = ["active", "theta", "phi", "dphi", "pOld", "sigma_y", "dt", "tol", "hR", "hdR", "r_inv", "r_dinv"]
    for tag in ("norate", "rate"):
        r = so[tag]
        o = [x for x in order if tag == "rate" or x not in ("r_inv", "r_dinv", "dt")]
        L.append("(* Solve (%s), %s line %d *)" % (tag, so["file"], so["line"]))
        L.append(define("gen_theta_next_%s" % tag, r["theta_next"], o))
        br = r["break"]
        if not (br[0] == "lt" and br[1][0] == "allmax"):
            raise TranslateError("%s: the break test must be `np.max(...) < bound`" % so["file"])
        L.append(define("gen_small_%s" % tag, ("lt", br[1][1], br[2]), o, ret="bool"))
        L.append(define("gen_dGamma_%s" % tag, r["ret_dGamma"], ["theta", "phi"]))
        so_ = ["c_pull", "phi0", "pOld", "sigma_y", "dt", "hR", "r_rate"]
        L.append(define("gen_start_%s" % tag, r["start"], so_))
        cv = r.get("ret_converged")
        if T["flag"]["kind"] == "ones" or cv is None:
            cv = None
        if cv is None:
            # __Spectral claims convergence at every point, whatever the loop did
            L.append("Definition gen_converged_%s %s : bool := true." % (tag, " ".join("(%s : %s)" % (n, "bool" if n == "active" else ("R -> R" if n.startswith("h") or n.startswith("r_") else "R")) for n in o)))
        else:
            L.append(define("gen_converged_%s" % tag, cv, o, ret="bool"))
    a = so["norate"]["active"]
    L.append(define("gen_active", a, ["phi0", "pOld", "sigma_y", "hR"], ret="bool"))
    L.append(define("gen_sig_eig", so["norate"]["sig_eig"], ["y", "lam", "theta"]))
    ps = T["ps"]
    L.append("(* Behavior.__Plane_stress_strain, %s line %d: per-point break test and eps_zz update *)" % (ps["file"], ps["line"]))
    L.append(define("gen_ps_small", ps["small"], ["r", "tol"], ret="bool"))
    L.append(define("gen_ps_update", ps["update"], ["ezz", "r", "czz"]))
    tg = T["tangent"]
    L.append("(* _spectral.Tangent, %s line %d:  C_alg = T [diag(dd) + a (x) b] Ti C  at active points *)" % (tg["file"], tg["line"]))
    L.append(define("gen_tan_diag", tg["diag"], ["d"]))
    L.append(define("gen_tan_a", tg["a"], ["lam", "y", "d", "theta", "slope", "drdtheta", "active"]))
    L.append(define("gen_tan_b", tg["b"], ["lam", "y", "d", "phi"]))
    L.append(define("gen_ret_d", so["norate"]["ret_d"], ["lam", "theta"]))
    hd = T["hardening"]
    for nm in ("Linear", "Voce"):
        h = hd[nm]
        L.append("(* IsotropicHardening.%s, %s line %d; constructor asserts: %s *)" % (nm, hd["file"], h["line"], "; ".join(h["asserts"])))
        for k in ("psi", "R", "dR"):
            L.append(define("gen_%s_%s" % (nm.lower(), k), h[k], h["params"] + ["p"]))
    y = T["yield"]

    def mat(M, sym=False):
        return "[" + ";\n   ".join("[" + "; ".join((coq(e) if sym else coq(("c", e))) for e in row) + "]" for row in M) + "]"
    L.append("(* Yield.VonMises P (line %d) through _kelvin.ONE / IDEV *)" % y["vm_line"])
    L.append("Definition gen_vmP : list (list R) :=\n  %s." % mat(y["vmP"]))
    L.append("Definition gen_hillP (F G H L M N : R) : list (list R) :=\n  %s." % mat(y["hillP"], True))
    return "\n".join(L) + "\n"
