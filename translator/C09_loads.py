"""C09 — fail-closed translator of the load machinery of EasyFEA/Simulations/_simu.py into
Gen_Loads.v: the dimension dispatch / thickness table of add_lineLoad / add_surfLoad / add_volumeLoad /
add_pressureLoad, the einsum subscripts and quadrature rule of __Bc_Integration_Dim, the element
selection call and the divisor of __Bc_pointLoad.  Every construct that is not exactly one of the
accepted shapes raises TranslateError (the check then reports that the theorems no longer apply)."""
import ast
import os
import re

_DIMTEST = re.compile(r"^(?:\w+|self\.mesh\.dim|mesh\.dim) == (\d)$")


def _dimtest(t):
    m = _DIMTEST.match(t)
    return int(m.group(1)) if m else None


class TranslateError(Exception):
    pass


def _methods(repo):
    path = os.path.join(repo, "EasyFEA", "Simulations", "_simu.py")
    src = open(path).read()
    tree = ast.parse(src)
    for node in ast.walk(tree):
        if isinstance(node, ast.ClassDef) and node.name == "_Simu":
            return {f.name: f for f in node.body if isinstance(f, ast.FunctionDef)}, src
    raise TranslateError("class _Simu not found")


def _seg(src, n):
    return ast.get_source_segment(src, n)


def _calls(node, src):
    return [(_seg(src, c.func), c) for c in ast.walk(node) if isinstance(c, ast.Call)]


def _thickness_mult(body, src, var):
    """does the statement list multiply a local variable (named `var` in the pinned source; any name is accepted) by
    self.model.thickness exactly once?  Accepted: `v *= self.model.thickness`, `v = v * self.model.thickness`,
    `v = self.model.thickness * v`, also through a local alias `t = self.model.thickness`."""
    alias = {"self.model.thickness"}
    for st in body:
        for s in ast.walk(st):
            if isinstance(s, ast.Assign) and len(s.targets) == 1 and isinstance(s.targets[0], ast.Name) and _seg(src, s.value) == "self.model.thickness":
                alias.add(s.targets[0].id)
    n = 0
    for st in body:
        for s in ast.walk(st):
            if isinstance(s, ast.AugAssign) and isinstance(s.op, ast.Mult) and isinstance(s.target, ast.Name) and _seg(src, s.value) in alias:
                n += 1
            if isinstance(s, ast.Assign) and len(s.targets) == 1 and isinstance(s.targets[0], ast.Name) and isinstance(s.value, ast.BinOp) \
                    and isinstance(s.value.op, ast.Mult):
                v = s.targets[0].id
                l, r_ = _seg(src, s.value.left), _seg(src, s.value.right)
                if (l == v and r_ in alias) or (r_ == v and l in alias):
                    n += 1
    other = sum(1 for st in body for s in ast.walk(st) if isinstance(s, ast.Attribute) and _seg(src, s) == "self.model.thickness")
    if other != n and not (other == 1 and n == 1):
        raise TranslateError("line %d: thickness is used outside a single multiplication of %s" % (body[0].lineno, var))
    return n


def _dim_branches(f, src):
    """the `if dim == 2: ... elif dim == 3: ... else: raise` chain -> {dim: body}"""
    for st in f.body:
        if isinstance(st, ast.If) and _dimtest(_seg(src, st.test)) is not None and not _seg(src, st.test).startswith("self.dim"):
            out = {}
            cur = st
            while True:
                t = _seg(src, cur.test)
                if _dimtest(t) is None:
                    raise TranslateError("line %d: unsupported test %s" % (cur.lineno, t))
                out[_dimtest(t)] = cur.body
                if len(cur.orelse) == 1 and isinstance(cur.orelse[0], ast.If):
                    cur = cur.orelse[0]
                    continue
                if not (len(cur.orelse) == 1 and isinstance(cur.orelse[0], ast.Raise)):
                    raise TranslateError("line %d: the dimension dispatch does not end with raise" % cur.lineno)
                return out
    return None


def _integration_dim_of(methods, src, name):
    f = methods.get(name)
    if f is None:
        raise TranslateError("%s not found" % name)
    cs = [c for fn, c in _calls(f, src) if fn == "self.__Bc_Integration_Dim"]
    if len(cs) != 1:
        raise TranslateError("%s does not call __Bc_Integration_Dim exactly once" % name)
    kw = {k.arg: _seg(src, k.value) for k in cs[0].keywords}
    d = kw.get("dim") or (_seg(src, cs[0].args[0]) if cs[0].args else None)
    if d is None:
        raise TranslateError("%s: integration dimension not found" % name)
    return d


def read_loads(repo):
    M, src = _methods(repo)
    helper_dim = {}
    for h in ("__Bc_lineLoad", "__Bc_surfload", "__Bc_volumeload"):
        d = _integration_dim_of(M, src, h)
        if not d.isdigit():
            raise TranslateError("%s integrates on dimension %s" % (h, d))
        if _thickness_mult(M[h].body, src, "dofsValues"):
            raise TranslateError("%s multiplies by the thickness" % h)
        helper_dim["self." + h] = int(d)
    table = {}

    def helper_of(body, where):
        hs = [fn for st in body for fn, _ in _calls(st, src) if fn in helper_dim]
        if len(hs) != 1:
            raise TranslateError("%s: expected exactly one call of a __Bc_* helper, found %s" % (where, hs))
        return helper_dim[hs[0]]

    # add_lineLoad: no dispatch, no thickness
    f = M["add_lineLoad"]
    if _dim_branches(f, src) is not None:
        raise TranslateError("add_lineLoad has a dimension dispatch")
    k = helper_of(f.body, "add_lineLoad")
    if _thickness_mult(f.body, src, "dofsValues"):
        raise TranslateError("add_lineLoad multiplies by the thickness")
    table["LineLoad"] = {d: (k, False) for d in (1, 2, 3)}
    for name, load in (("add_surfLoad", "SurfLoad"), ("add_volumeLoad", "VolumeLoad")):
        br = _dim_branches(M[name], src)
        if br is None:
            raise TranslateError("%s has no dimension dispatch" % name)
        table[load] = {d: (helper_of(body, name), bool(_thickness_mult(body, src, "dofsValues"))) for d, body in br.items()}
    # pressure: magnitude *= thickness if dim == 2 ; integration on dim - 1 ; 1-D refused by add_pressureLoad
    f = M["__Bc_pressureload"]
    d = _integration_dim_of(M, src, "__Bc_pressureload")
    if not re.match(r"^(?:\w+|self\.mesh\.dim|mesh\.dim) - 1$", d):
        raise TranslateError("__Bc_pressureload integrates on %s (expected dim - 1)" % d)
    thick_dims = []
    for st in f.body:
        if isinstance(st, ast.If) and _dimtest(_seg(src, st.test)) is not None and _thickness_mult(st.body, src, "magnitude"):
            thick_dims.append(_dimtest(_seg(src, st.test)))
    n_all = sum(1 for s in ast.walk(f) if isinstance(s, ast.Attribute) and _seg(src, s) == "self.model.thickness")
    if n_all != len(thick_dims):
        raise TranslateError("__Bc_pressureload uses the thickness outside `if dim == k: magnitude *= thickness`")
    if "if self.dim == 1:" not in _seg(src, M["add_pressureLoad"]):
        raise TranslateError("add_pressureLoad no longer refuses 1-D simulations")
    table["PressureLoad"] = {d_: (d_ - 1, d_ in thick_dims) for d_ in (2, 3)}
    # __Bc_Integration_Dim: rule, selection, einsums, sum over the Gauss points
    f = M["__Bc_Integration_Dim"]
    text = _seg(src, f)
    # einsum subscripts as a SET (the same integration statement may be written once per branch or once after
    # the if/else), and separately the subscripts of every einsum assigned to the array that is summed over the
    # Gauss-point axis (np.sum(<array>, axis=1)): all of them must be the integration einsum
    all_eins = [c for fn, c in _calls(f, src) if fn == "np.einsum"]
    if any(not (c.args and isinstance(c.args[0], ast.Constant) and isinstance(c.args[0].value, str)) for c in all_eins):
        raise TranslateError("__Bc_Integration_Dim: einsum subscripts are not string literals")
    eins = sorted(set(c.args[0].value for c in all_eins))
    m_sum = re.search(r"np\.sum\((\w+), axis=1\)", _seg(src, f))
    summed = m_sum.group(1) if m_sum else None
    integ = sorted(set(s_.value.args[0].value for s_ in ast.walk(f)
                       if isinstance(s_, ast.Assign) and len(s_.targets) == 1 and isinstance(s_.targets[0], ast.Name) and s_.targets[0].id == summed
                       and isinstance(s_.value, ast.Call) and _seg(src, s_.value.func) == "np.einsum"))
    n_defs = sum(1 for s_ in ast.walk(f) if isinstance(s_, ast.Assign) and len(s_.targets) == 1 and isinstance(s_.targets[0], ast.Name) and s_.targets[0].id == summed)
    if summed is None or not integ or n_defs != sum(1 for s_ in ast.walk(f) if isinstance(s_, ast.Assign) and len(s_.targets) == 1
                                                   and isinstance(s_.targets[0], ast.Name) and s_.targets[0].id == summed
                                                   and isinstance(s_.value, ast.Call) and _seg(src, s_.value.func) == "np.einsum"):
        raise TranslateError("__Bc_Integration_Dim: the array summed over the Gauss-point axis is not defined by np.einsum only")
    rules = sorted(set(_seg(src, s) for s in ast.walk(f) if isinstance(s, ast.Attribute) and isinstance(s.value, ast.Name) and s.value.id == "MatrixType"))
    sel = [(_seg(src, c.args[0]) if c.args else None, {k.arg: _seg(src, k.value) for k in c.keywords}) for fn, c in _calls(f, src) if fn == "groupElem.Get_Elements_Nodes"]
    if sel != [("nodes", {"exclusively": "True"})]:
        raise TranslateError("__Bc_Integration_Dim does not select with Get_Elements_Nodes(nodes, exclusively=True): %s" % sel)

    if not re.search(r"np\.sum\(\w+, axis=1\)", text):
        raise TranslateError("__Bc_Integration_Dim does not sum values_e_p over the Gauss-point axis")
    # __Bc_pointLoad divisor
    f = M["__Bc_pointLoad"]
    div = [_seg(src, s.value) for s in ast.walk(f) if isinstance(s, ast.AugAssign) and isinstance(s.op, ast.Div) and isinstance(s.target, ast.Name)]
    div += [_seg(src, s.value.right) for s in ast.walk(f) if isinstance(s, ast.Assign) and isinstance(s.value, ast.BinOp) and isinstance(s.value.op, ast.Div)
            and len(s.targets) == 1 and isinstance(s.targets[0], ast.Name) and _seg(src, s.value.left) == s.targets[0].id]
    if len(div) != 1:
        raise TranslateError("__Bc_pointLoad: expected exactly one division of the evaluated values (v /= len(nodes))")
    return {"table": table, "einsums": eins, "integration_einsums": integ, "rules": rules, "point_div": div[0]}


def emit_coq(r):
    rows = []
    for load, tab in r["table"].items():
        for d, (k, t) in sorted(tab.items()):
            rows.append("  | %s, %d%%nat => Some (%d%%nat, %s)" % (load, d, k, "true" if t else "false"))
    return ("(* GENERATED from EasyFEA/Simulations/_simu.py by translator/C09_loads.py — do not edit *)\n"
            "From Coq Require Import String List Arith.\nFrom EFModel Require Import C09_Loads.\nImport ListNotations.\nOpen Scope string_scope.\n"
            "Definition dispatch_src (l : load) (meshdim : nat) : option (nat * bool) :=\n  match l, meshdim with\n%s\n  | _, _ => None\n  end.\n"
            "Definition einsums_src : list string := [%s].\nDefinition integration_einsums_src : list string := [%s].\nDefinition rules_src : list string := [%s].\nDefinition point_div_src : string := \"%s\".\n"
            % ("\n".join(rows), "; ".join('"%s"' % e for e in r["einsums"]), "; ".join('"%s"' % e for e in r["integration_einsums"]),
               "; ".join('"%s"' % e for e in r["rules"]), r["point_div"]))
