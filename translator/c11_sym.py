"""Small fail-closed symbolic interpreter for the numpy-flavoured straight-line python of
EasyFEA's constitutive-law / change-of-basis / beam-frame code (used by translator/laws.py,
translator/pmat.py, translator/c10_beam.py).  Pure `ast`; EasyFEA is never imported.

Scalars are rational-function trees over named real variables:
  ('c', Fraction) | ('v', name) | ('+',a,b) | ('-',a,b) | ('*',a,b) | ('/',a,b) | ('neg',a) | ('pow',a,n)
Arrays are `Arr` (nested python lists of trees / ints).  Anything the interpreter does not
understand becomes `Opaque(reason)`; an Opaque reaching a requested output raises
TranslateError, so unknown constructs are tolerated only where they cannot influence the
translated quantity (dtype selection, run-time self-tests, shape dispatch for heterogeneous
arrays ...)."""
import ast
import itertools
from fractions import Fraction


class TranslateError(Exception):
    pass


class Opaque:
    def __init__(self, why):
        self.why = why

    def __repr__(self):
        return "Opaque(%s)" % self.why


class Sym:
    """An uninterpreted library operation kept as a marker (np.linalg.inv, Get_Pmat ...)."""

    def __init__(self, op, args, shape=None):
        self.op, self.args, self.shape = op, args, shape

    def __repr__(self):
        return "Sym(%s,%r)" % (self.op, self.args)


class Arr:
    def __init__(self, data):
        self.data = data

    @property
    def shape(self):
        s, d = [], self.data
        while isinstance(d, list):
            s.append(len(d))
            d = d[0] if d else None
        return tuple(s)

    def __repr__(self):
        return "Arr(%r)" % (self.shape,)


# ------------------------------------------------------------------ trees
def C(x):
    return ('c', Fraction(x))


def is_tree(x):
    return isinstance(x, tuple) and x and x[0] in ('c', 'v', '+', '-', '*', '/', 'neg', 'pow')


def as_tree(x):
    if is_tree(x):
        return x
    if isinstance(x, bool):
        raise TranslateError("bool used as a number")
    if isinstance(x, int):
        return C(x)
    if isinstance(x, Fraction):
        return ('c', x)
    if isinstance(x, float):
        return ('c', Fraction(repr(x)))
    raise TranslateError("not a scalar: %r" % (x,))


def is_num(x):
    return isinstance(x, (int, Fraction, float)) and not isinstance(x, bool)


def mk(op, a, b):
    """smart constructor with light constant folding (keeps the source's structure otherwise)."""
    a, b = as_tree(a), as_tree(b)
    if a[0] == 'c' and b[0] == 'c':
        if op == '+':
            return ('c', a[1] + b[1])
        if op == '-':
            return ('c', a[1] - b[1])
        if op == '*':
            return ('c', a[1] * b[1])
        if op == '/' and b[1] != 0:
            return ('c', a[1] / b[1])
    if op == '*':
        if a == C(0) or b == C(0):
            return C(0)
        if a == C(1):
            return b
        if b == C(1):
            return a
    if op == '+':
        if a == C(0):
            return b
        if b == C(0):
            return a
    if op == '-' and b == C(0):
        return a
    return (op, a, b)


def tree_vars(t, acc=None):
    acc = set() if acc is None else acc
    if t[0] == 'v':
        acc.add(t[1])
    elif t[0] in ('neg', 'pow'):
        tree_vars(t[1], acc)
    elif t[0] != 'c':
        tree_vars(t[1], acc)
        tree_vars(t[2], acc)
    return acc


def tree_denoms(t, acc=None):
    acc = [] if acc is None else acc
    if t[0] in ('c', 'v'):
        return acc
    if t[0] in ('neg', 'pow'):
        return tree_denoms(t[1], acc)
    tree_denoms(t[1], acc)
    tree_denoms(t[2], acc)
    if t[0] == '/' and t[2] not in acc:
        acc.append(t[2])
    return acc


def subst(t, env):
    if t[0] == 'v':
        return env.get(t[1], t)
    if t[0] == 'c':
        return t
    if t[0] == 'neg':
        return ('neg', subst(t[1], env))
    if t[0] == 'pow':
        return ('pow', subst(t[1], env), t[2])
    return (t[0], subst(t[1], env), subst(t[2], env))


def ev_tree(t, env, conv=Fraction):
    """evaluate with numbers of any field type; env: name -> number; conv: Fraction -> number."""
    k = t[0]
    if k == 'c':
        return conv(t[1])
    if k == 'v':
        return env[t[1]]
    if k == 'neg':
        return -ev_tree(t[1], env, conv)
    if k == 'pow':
        return ev_tree(t[1], env, conv) ** t[2]
    a, b = ev_tree(t[1], env, conv), ev_tree(t[2], env, conv)
    return a + b if k == '+' else a - b if k == '-' else a * b if k == '*' else a / b


def coq_tree(t):
    """Coq text over R (R_scope)."""
    k = t[0]
    if k == 'c':
        n, d = t[1].numerator, t[1].denominator
        s = "%d" % n if n >= 0 else "(-%d)" % (-n)
        return s if d == 1 else "(%s / %d)" % (s, d)
    if k == 'v':
        return t[1]
    if k == 'neg':
        return "(- %s)" % coq_tree(t[1])
    if k == 'pow':
        # written as a product: nsatz does not reify `x ^ n` on R
        if t[2] == 0:
            return "1"
        b = coq_tree(t[1])
        return "(" + " * ".join([b] * t[2]) + ")"
    return "(%s %s %s)" % (coq_tree(t[1]), k, coq_tree(t[2]))


def coq_mat(rows):
    return "[" + ";\n   ".join("[" + "; ".join(coq_tree(as_tree(x)) for x in r) + "]" for r in rows) + "]"


def arr_map(f, d):
    return [arr_map(f, x) for x in d] if isinstance(d, list) else f(d)


def arr_zip(f, a, b):
    if isinstance(a, list) and isinstance(b, list):
        if len(a) == len(b):
            return [arr_zip(f, x, y) for x, y in zip(a, b)]
        if len(b) == 1:
            return [arr_zip(f, x, b[0]) for x in a]
        if len(a) == 1:
            return [arr_zip(f, a[0], y) for y in b]
        raise TranslateError("shape mismatch in elementwise operation")
    if isinstance(a, list):
        return [arr_zip(f, x, b) for x in a]
    if isinstance(b, list):
        return [arr_zip(f, a, y) for y in b]
    return f(a, b)


def contains_opaque(v):
    if isinstance(v, Opaque):
        return v
    if isinstance(v, Arr):
        return contains_opaque(v.data)
    if isinstance(v, Sym):
        return contains_opaque(list(v.args))
    if isinstance(v, (list, tuple)) and not is_tree(v):
        for x in v:
            o = contains_opaque(x)
            if o:
                return o
    if isinstance(v, dict):
        return contains_opaque(list(v.values()))
    return None


def need(v, where):
    o = contains_opaque(v)
    if o:
        raise TranslateError("%s: depends on a construct the translator does not model: %s" % (where, o.why))
    return v


class LocalFn:
    """a helper function defined inside the interpreted function"""

    def __init__(self, node, env):
        self.node, self.env = node, env


class _Return(Exception):
    def __init__(self, v):
        self.v = v


class Module:
    def __init__(self, path):
        self.path = path
        self.tree = ast.parse(open(path).read())
        self.funcs = {n.name: n for n in self.tree.body if isinstance(n, ast.FunctionDef)}
        self.classes = {n.name: n for n in self.tree.body if isinstance(n, ast.ClassDef)}

    def cls(self, name):
        if name not in self.classes:
            raise TranslateError("%s: class %s not found" % (self.path, name))
        return self.classes[name]


def class_members(cnode):
    meths, props, descr = {}, {}, {}
    for m in cnode.body:
        if isinstance(m, ast.FunctionDef):
            decos = [ast.unparse(d) for d in m.decorator_list]
            if "property" in decos:
                props[m.name] = m
            elif any(d.endswith(".setter") for d in decos):
                pass
            else:
                meths[m.name] = m
        elif isinstance(m, ast.AnnAssign) and isinstance(m.target, ast.Name) and m.value is not None:
            descr[m.target.id] = m.value
    return meths, props, descr


class Interp:
    """Interprets one function body.  `selfobj` resolves `self.<name>` (callable name->value or
    raising KeyError); `calls` maps free-function / method names to python callables
    (args, kwargs) -> value."""

    def __init__(self, where, selfobj=None, calls=None, mangled_cls=None):
        self.where = where
        self.selfobj = selfobj
        self.calls = calls or {}
        self.asserts = []
        self.assert_values = []       # symbolic comparisons asserted on the interpreted path
        self.modfuncs = {}            # module-level functions that may be inlined when called by name
        self.isinstance_hook = None   # (node_args, env) -> bool | None
        self.depth = 0
        self.mangled = mangled_cls

    # ----------------------------------------------------------------- statements
    def run(self, fn, args):
        env = dict(args)
        try:
            self.block(fn.body, env)
        except _Return as r:
            return r.v
        return None

    def block(self, body, env):
        for st in body:
            self.stmt(st, env)

    def assigned_names(self, body, acc):
        for st in body:
            for n in ast.walk(st):
                if isinstance(n, ast.Name) and isinstance(n.ctx, ast.Store):
                    acc.add(n.id)
                if isinstance(n, (ast.Subscript, ast.Attribute)) and isinstance(n.ctx, ast.Store):
                    b = n
                    while isinstance(b, (ast.Subscript, ast.Attribute)):
                        b = b.value
                    if isinstance(b, ast.Name):
                        acc.add(b.id)
        return acc

    def has_return(self, body):
        return any(isinstance(n, (ast.Return,)) for st in body for n in ast.walk(st))

    def stmt(self, st, env):
        if isinstance(st, ast.Expr):
            # a bare call of a local / module-level helper is interpreted for its effects (asserts, in-place
            # updates of arrays); other expression statements (docstrings, prints, ...) are skipped
            v = st.value
            if isinstance(v, ast.Call) and isinstance(v.func, ast.Name) and (isinstance(env.get(v.func.id), LocalFn) or (v.func.id in self.modfuncs and v.func.id not in env)):
                self.ev(v, env)
            return
        if isinstance(st, ast.Assert):
            self.asserts.append(st)
            try:
                v = self.ev(st.test, env)
            except TranslateError:
                v = None
            if isinstance(v, tuple) and v and v[0] == 'cmpchain':
                self.assert_values.append(v)
            return
        if isinstance(st, ast.Pass):
            return
        if isinstance(st, ast.FunctionDef):
            a = st.args
            if a.vararg or a.kwarg or a.kwonlyargs or a.posonlyargs or st.decorator_list:
                env[st.name] = Opaque("nested function %s with a non-trivial signature" % st.name)
            else:
                env[st.name] = LocalFn(st, env)      # inlined when called (closure = the enclosing scope)
            return
        if isinstance(st, ast.AnnAssign):
            if st.value is not None and isinstance(st.target, ast.Name):
                env[st.target.id] = self.ev(st.value, env)
            return
        if isinstance(st, ast.Assign):
            v = self.ev(st.value, env)
            for t in st.targets:
                self.assign(t, v, env)
            return
        if isinstance(st, ast.AugAssign):
            if isinstance(st.target, ast.Name):
                cur = env.get(st.target.id, Opaque("unbound"))
                env[st.target.id] = self.binop(st.op, cur, self.ev(st.value, env))
            else:
                for n in self.assigned_names([st], set()):
                    env[n] = Opaque("augmented assignment")
            return
        if isinstance(st, ast.Return):
            raise _Return(self.ev(st.value, env) if st.value is not None else None)
        if isinstance(st, ast.Raise):
            raise TranslateError("%s: the modelled path reaches `%s`" % (self.where, ast.unparse(st)[:60]))
        if isinstance(st, ast.If):
            c = self.ev(st.test, env)
            if isinstance(c, bool) or (is_num(c)):
                self.block(st.body if c else st.orelse, env)
                return
            if self.has_return(st.body) or self.has_return(st.orelse):
                raise TranslateError("%s: return under an undecided condition `%s`" % (self.where, ast.unparse(st.test)[:60]))
            for n in self.assigned_names(st.body, set()) | self.assigned_names(st.orelse, set()):
                env[n] = Opaque("assigned under undecided condition `%s`" % ast.unparse(st.test)[:50])
            return
        if isinstance(st, ast.For):
            it = self.ev(st.iter, env)
            if isinstance(it, Arr):
                it = it.data
            if not isinstance(it, (list, tuple, range)) or contains_opaque(list(it)):
                for n in self.assigned_names([st], set()):
                    env[n] = Opaque("loop over unknown iterable")
                return
            for x in it:
                self.assign(st.target, x, env)
                self.block(st.body, env)
            return
        if isinstance(st, ast.Try):
            for n in self.assigned_names([st], set()):
                env[n] = Opaque("try block")
            return
        raise TranslateError("%s: statement %s" % (self.where, type(st).__name__))

    def assign(self, t, v, env):
        if isinstance(t, ast.Name):
            env[t.id] = v
            return
        if isinstance(t, (ast.Tuple, ast.List)):
            if isinstance(v, Arr):
                seq = [Arr(x) if isinstance(x, list) else x for x in v.data]
            elif isinstance(v, (list, tuple)) and not is_tree(v):
                seq = list(v)
            else:
                for n in self.assigned_names([ast.Expr(t)], set()) | {x.id for x in ast.walk(t) if isinstance(x, ast.Name)}:
                    env[n] = Opaque("unpacking of %r" % (v,))
                return
            if len(seq) != len(t.elts):
                raise TranslateError("%s: unpacking %d values into %d names" % (self.where, len(seq), len(t.elts)))
            for e, x in zip(t.elts, seq):
                self.assign(e, x, env)
            return
        if isinstance(t, ast.Subscript):
            base = self.ev(t.value, env)
            if isinstance(base, Arr) and not contains_opaque(base):
                idx = self.index(t.slice, env)
                if not contains_opaque(idx):
                    self.setitem(base, idx, v)
                    return
            if isinstance(t.value, ast.Name):
                env[t.value.id] = Opaque("subscript assignment not modelled")
            return
        if isinstance(t, ast.Attribute):
            return  # self.x = ...   (object state is not modelled here)
        raise TranslateError("%s: assignment target %s" % (self.where, type(t).__name__))

    # ----------------------------------------------------------------- indexing
    def index(self, sl, env):
        if isinstance(sl, ast.Tuple):
            return tuple(self.index(e, env) for e in sl.elts)
        if isinstance(sl, ast.Slice):
            lo = None if sl.lower is None else self.ev(sl.lower, env)
            hi = None if sl.upper is None else self.ev(sl.upper, env)
            stp = None if sl.step is None else self.ev(sl.step, env)
            return slice(lo, hi, stp)
        if isinstance(sl, ast.Constant) and sl.value is Ellipsis:
            return Ellipsis
        v = self.ev(sl, env)
        if isinstance(v, Arr):
            return list(v.data)
        return v

    def getitem(self, d, idx):
        if not isinstance(idx, tuple):
            idx = (idx,)
        if any(i is Ellipsis for i in idx):
            nd = len(Arr(d).shape)
            k = idx.index(Ellipsis)
            idx = idx[:k] + (slice(None),) * (nd - len(idx) + 1) + idx[k + 1:]
        if not idx:
            return d
        i, rest = idx[0], idx[1:]
        if isinstance(i, slice):
            return [self.getitem(x, rest) if rest else x for x in d[i]]
        if isinstance(i, list):
            if any(isinstance(r, list) for r in rest):
                raise TranslateError("%s: multiple fancy indices" % self.where)
            return [self.getitem(d[int(j)], rest) if rest else d[int(j)] for j in i]
        if isinstance(i, Fraction):
            i = int(i)
        if isinstance(i, int):
            return self.getitem(d[i], rest) if rest else d[i]
        raise TranslateError("%s: index %r" % (self.where, i))

    def setitem(self, arr, idx, v):
        if not isinstance(idx, tuple):
            idx = (idx,)
        val = v.data if isinstance(v, Arr) else v
        if any(i is Ellipsis for i in idx):
            nd = len(arr.shape)
            k = idx.index(Ellipsis)
            idx = idx[:k] + (slice(None),) * (nd - len(idx) + 1) + idx[k + 1:]

        def rec(d, idx, val):
            i, rest = idx[0], idx[1:]
            if isinstance(i, slice):
                ks = list(range(len(d)))[i]
                for n, k in enumerate(ks):
                    sub = val[n] if isinstance(val, list) else val
                    if rest:
                        rec(d[k], rest, sub)
                    else:
                        d[k] = sub
                return
            if isinstance(i, Fraction):
                i = int(i)
            if isinstance(i, int):
                if rest:
                    rec(d[i], rest, val)
                else:
                    d[i] = val
                return
            raise TranslateError("%s: subscript assignment index %r" % (self.where, i))
        # numpy semantics for p[:, 0] = vec : the value runs along the sliced axes
        rec(arr.data, idx, val)

    # ----------------------------------------------------------------- expressions
    def binop(self, op, a, b):
        for x in (a, b):
            if isinstance(x, Opaque):
                return x
            if isinstance(x, Sym):
                return Opaque("arithmetic on %s" % x.op)
        if isinstance(a, str) or isinstance(b, str):
            if isinstance(op, ast.Add) and isinstance(a, str) and isinstance(b, str):
                return a + b
            return Opaque("string arithmetic")
        if isinstance(a, (list, tuple)) and not is_tree(a) or isinstance(b, (list, tuple)) and not is_tree(b):
            if isinstance(op, ast.Add) and type(a) is type(b):
                return a + b
            if isinstance(op, ast.Mult) and isinstance(b, int):
                return a * b
            return Opaque("list arithmetic")
        if isinstance(op, ast.Pow):
            if isinstance(b, Fraction) and b.denominator == 1:
                b = int(b)
            if not (isinstance(b, int) and not isinstance(b, bool) and b >= 0):
                return Opaque("exponent %r" % (b,))

            def pw(x):
                if is_num(x):
                    return Fraction(x) ** b if not isinstance(x, int) else x ** b
                return ('pow', as_tree(x), b)
            if isinstance(a, Arr):
                return Arr(arr_map(pw, a.data))
            return pw(a)
        if isinstance(op, ast.MatMult):
            return self.matmul(a, b)
        sym = {ast.Add: '+', ast.Sub: '-', ast.Mult: '*', ast.Div: '/'}.get(type(op))
        if sym is None:
            if isinstance(op, ast.FloorDiv) and isinstance(a, int) and isinstance(b, int):
                return a // b
            if isinstance(op, ast.Mod) and isinstance(a, int) and isinstance(b, int):
                return a % b
            return Opaque("operator %s" % type(op).__name__)

        def f(x, y):
            if is_num(x) and is_num(y):
                if isinstance(x, float) or isinstance(y, float):
                    x = Fraction(repr(x)) if isinstance(x, float) else Fraction(x)
                    y = Fraction(repr(y)) if isinstance(y, float) else Fraction(y)
                if sym == '/':
                    if y == 0:
                        raise TranslateError("%s: division by literal zero" % self.where)
                    return Fraction(x) / Fraction(y)
                return x + y if sym == '+' else x - y if sym == '-' else x * y
            return mk(sym, x, y)
        if isinstance(a, Arr) or isinstance(b, Arr):
            return Arr(arr_zip(f, a.data if isinstance(a, Arr) else a, b.data if isinstance(b, Arr) else b))
        return f(a, b)

    def matmul(self, a, b):
        if not (isinstance(a, Arr) and isinstance(b, Arr)):
            return Opaque("matmul of non-arrays")
        sa, sb = a.shape, b.shape

        def dot(u, v):
            acc = C(0)
            for x, y in zip(u, v):
                acc = mk('+', acc, mk('*', x, y))
            return acc
        if len(sa) == 1 and len(sb) == 1 and sa == sb:
            return dot(a.data, b.data)
        if len(sa) == 2 and len(sb) == 1 and sa[1] == sb[0]:
            return Arr([dot(r, b.data) for r in a.data])
        if len(sa) == 2 and len(sb) == 2 and sa[1] == sb[0]:
            cols = list(zip(*b.data))
            return Arr([[dot(r, c) for c in cols] for r in a.data])
        return Opaque("matmul shapes %s %s" % (sa, sb))

    def ev(self, n, env):
        try:
            return self._ev(n, env)
        except TranslateError:
            raise
        except (KeyError, IndexError, TypeError, ValueError, AttributeError, ZeroDivisionError) as ex:
            return Opaque("%s while evaluating `%s`" % (type(ex).__name__, ast.unparse(n)[:60]))

    def _ev(self, n, env):
        if isinstance(n, ast.Constant):
            v = n.value
            if isinstance(v, float):
                return Fraction(repr(v))
            return v
        if isinstance(n, ast.Name):
            if n.id in env:
                return env[n.id]
            if n.id in ("np", "numpy"):
                return ('module', 'np')
            if n.id == "operator":
                return ('module', 'operator')
            return Opaque("unbound name %s" % n.id)
        if isinstance(n, ast.JoinedStr):
            out = ""
            for p in n.values:
                if isinstance(p, ast.Constant):
                    out += p.value
                else:
                    v = self.ev(p.value, env)
                    if not isinstance(v, str):
                        return Opaque("f-string of non-string")
                    out += v
            return out
        if isinstance(n, (ast.List, ast.Tuple)):
            vals = []
            for e in n.elts:
                if isinstance(e, ast.Starred):
                    v = self.ev(e.value, env)
                    if isinstance(v, Arr):
                        v = v.data
                    if not (isinstance(v, (list, tuple)) and not is_tree(v)):
                        return Opaque("starred expression `%s`" % ast.unparse(e)[:40])
                    vals.extend(v)
                else:
                    vals.append(self.ev(e, env))
            return vals if isinstance(n, ast.List) else tuple(vals)
        if isinstance(n, ast.UnaryOp):
            v = self.ev(n.operand, env)
            if isinstance(v, (Opaque, Sym)):
                return Opaque("unary on opaque")
            if isinstance(n.op, ast.Not):
                return (not v) if isinstance(v, bool) else Opaque("not of non-bool")
            if isinstance(n.op, ast.USub):
                if isinstance(v, Arr):
                    return Arr(arr_map(lambda x: -x if is_num(x) else ('neg', x), v.data))
                return -v if is_num(v) else ('neg', as_tree(v))
            if isinstance(n.op, ast.UAdd):
                return v
            return Opaque("unary %s" % type(n.op).__name__)
        if isinstance(n, ast.BinOp):
            return self.binop(n.op, self.ev(n.left, env), self.ev(n.right, env))
        if isinstance(n, ast.BoolOp):
            vals = []
            for e in n.values:
                v = self.ev(e, env)
                if isinstance(v, bool):
                    if isinstance(n.op, ast.And) and not v:
                        return False
                    if isinstance(n.op, ast.Or) and v:
                        return True
                vals.append(v)
            if all(isinstance(v, bool) for v in vals):
                return all(vals) if isinstance(n.op, ast.And) else any(vals)
            return Opaque("undecided boolean `%s`" % ast.unparse(n)[:50])
        if isinstance(n, ast.Compare):
            left = self.ev(n.left, env)
            operands = [left] + [self.ev(rn, env) for rn in n.comparators]
            symops = {ast.Lt: '<', ast.LtE: '<=', ast.Gt: '>', ast.GtE: '>='}
            if any(is_tree(x) for x in operands) and all(is_tree(x) or is_num(x) for x in operands) and all(type(o) in symops for o in n.ops):
                return ('cmpchain', [(symops[type(o)], a_, b_) for o, a_, b_ in zip(n.ops, operands, operands[1:])])
            res = True
            for op, rn in zip(n.ops, n.comparators):
                right = self.ev(rn, env)

                def conc(x):
                    return x is None or isinstance(x, (bool, int, str, Fraction)) or (isinstance(x, (tuple, list)) and not is_tree(x) and all(conc(y) for y in x))
                if not (conc(left) and conc(right)):
                    return Opaque("undecided comparison `%s`" % ast.unparse(n)[:50])
                r = {ast.Eq: lambda a, b: a == b, ast.NotEq: lambda a, b: a != b, ast.Is: lambda a, b: a is b or (a == b and a is None),
                     ast.IsNot: lambda a, b: not (a is b), ast.Lt: lambda a, b: a < b, ast.LtE: lambda a, b: a <= b,
                     ast.Gt: lambda a, b: a > b, ast.GtE: lambda a, b: a >= b, ast.In: lambda a, b: a in b,
                     ast.NotIn: lambda a, b: a not in b}[type(op)](left, right)
                res = res and r
                left = right
            return res
        if isinstance(n, ast.IfExp):
            c = self.ev(n.test, env)
            if isinstance(c, bool):
                return self.ev(n.body if c else n.orelse, env)
            return Opaque("undecided conditional expression")
        if isinstance(n, ast.Subscript):
            base = self.ev(n.value, env)
            idx = self.index(n.slice, env)
            if contains_opaque(base) or contains_opaque(idx):
                return Opaque("subscript of opaque `%s`" % ast.unparse(n)[:40])
            if isinstance(base, Sym):
                return Sym('sub', (base, idx))
            if isinstance(base, Arr):
                r = self.getitem(base.data, idx)
                return Arr(r) if isinstance(r, list) else r
            if isinstance(base, (list, tuple)) and not is_tree(base):
                if isinstance(idx, Fraction):
                    idx = int(idx)
                return base[idx]
            return Opaque("subscript of %r" % (base,))
        if isinstance(n, ast.Attribute):
            if isinstance(n.value, ast.Name) and n.value.id == "self":
                name = n.attr
                if name.startswith("__") and not name.endswith("__") and self.mangled:
                    name = "_%s%s" % (self.mangled, name)
                if self.selfobj is None:
                    return Opaque("self.%s" % name)
                return self.selfobj(name, n.attr)
            base = self.ev(n.value, env)
            if base == ('module', 'np'):
                if n.attr == "newaxis":
                    return None
                if n.attr == "linalg":
                    return ('module', 'np.linalg')
                return ('npfunc', n.attr)
            if base == ('module', 'np.linalg'):
                return ('npfunc', 'linalg.' + n.attr)
            if base == ('module', 'operator'):
                sym = {"ge": '>=', "gt": '>', "le": '<=', "lt": '<'}.get(n.attr)
                return ('opfunc', sym) if sym else Opaque("operator.%s" % n.attr)
            if isinstance(base, Arr):
                if n.attr == "shape":
                    return base.shape
                if n.attr == "ndim":
                    return len(base.shape)
                if n.attr == "size":
                    s = 1
                    for k in base.shape:
                        s *= k
                    return s
                if n.attr == "T":
                    if len(base.shape) == 2:
                        return Arr([list(c) for c in zip(*base.data)])
                    if len(base.shape) == 1:
                        return base
                return ('method', base, n.attr)
            if isinstance(base, Sym):
                if n.attr == "shape" and base.shape is not None:
                    return base.shape
                if n.attr == "ndim" and base.shape is not None:
                    return len(base.shape)
                return ('method', base, n.attr)
            if isinstance(base, dict) and n.attr in base:
                return base[n.attr]      # client-supplied symbolic object
            return Opaque("attribute %s of %r" % (n.attr, base))
        if isinstance(n, ast.Call):
            return self.call(n, env)
        if isinstance(n, ast.ListComp) or isinstance(n, ast.GeneratorExp) or isinstance(n, ast.Lambda):
            return Opaque(type(n).__name__)
        return Opaque("expression %s" % type(n).__name__)

    # ----------------------------------------------------------------- calls
    def call(self, n, env):
        f = n.func
        args = [self.ev(a, env) for a in n.args]
        kw = {k.arg: self.ev(k.value, env) for k in n.keywords if k.arg}
        # self.method(...)
        if isinstance(f, ast.Attribute) and isinstance(f.value, ast.Name) and f.value.id == "self":
            name = f.attr
            if name.startswith("__") and not name.endswith("__") and self.mangled:
                name = "_%s%s" % (self.mangled, name)
            key = "self." + name
            if key in self.calls:
                return self.calls[key](args, kw)
            return Opaque("call self.%s" % name)
        if isinstance(f, ast.Name) and f.id == "isinstance" and self.isinstance_hook is not None:
            r = self.isinstance_hook(n.args, env)
            if r is not None:
                return r
        if isinstance(f, ast.Name) and isinstance(env.get(f.id), tuple) and env[f.id][:1] == ('opfunc',) and len(args) == 2:
            a_, b_ = args
            if (is_tree(a_) or is_num(a_)) and (is_tree(b_) or is_num(b_)):
                return ('cmpchain', [(env[f.id][1], a_, b_)])
            return Opaque("comparison function applied to non-scalars")
        if isinstance(f, ast.Name) and f.id not in env and f.id not in self.calls and f.id in self.modfuncs and self.depth < 4:
            # a module-level helper called by name: inlined (its own scope = its arguments)
            fn = self.modfuncs[f.id]
            a = fn.args
            if not (a.vararg or a.kwarg or a.kwonlyargs or a.posonlyargs):
                names = [x.arg for x in a.args]
                bound = {}
                for nm, dv in zip(names[len(names) - len(a.defaults):], a.defaults):
                    bound[nm] = self.ev(dv, {})
                if len(args) <= len(names) and all(k in names for k in kw):
                    bound.update(zip(names, args))
                    bound.update(kw)
                    if all(nm in bound for nm in names):
                        self.depth += 1
                        try:
                            self.block(fn.body, bound)
                            return None
                        except _Return as r:
                            return r.v
                        finally:
                            self.depth -= 1
            return Opaque("call of module function %s with an unsupported signature" % f.id)
        if isinstance(f, ast.Name):
            if isinstance(env.get(f.id), LocalFn):
                lf = env[f.id]
                names = [x.arg for x in lf.node.args.args]
                defaults = lf.node.args.defaults
                bound = dict(lf.env)
                for nm, dv in zip(names[len(names) - len(defaults):], defaults):
                    bound[nm] = self.ev(dv, lf.env)
                if len(args) > len(names) or any(k not in names for k in kw):
                    return Opaque("call of local function %s with unexpected arguments" % f.id)
                bound.update(zip(names, args))
                bound.update(kw)
                if any(nm not in bound or isinstance(bound[nm], LocalFn) for nm in names):
                    return Opaque("call of local function %s: missing argument" % f.id)
                try:
                    self.block(lf.node.body, bound)
                except _Return as r:
                    return r.v
                return None
            if f.id in self.calls:
                return self.calls[f.id](args, kw)
            if f.id == "len" and len(args) == 1:
                a = args[0]
                if isinstance(a, Arr):
                    return a.shape[0]
                if isinstance(a, (tuple, list, str)) and not is_tree(a):
                    return len(a)
                return Opaque("len of %r" % (a,))
            if f.id == "range" and all(isinstance(a, int) for a in args):
                return list(range(*args))
            if f.id == "enumerate" and len(args) == 1:
                a = args[0].data if isinstance(args[0], Arr) else args[0]
                if isinstance(a, (list, tuple)) and not is_tree(a):
                    return [(i, x) for i, x in enumerate(a)]
            if f.id == "isinstance":
                return Opaque("isinstance")
            if f.id in ("float", "int") and len(args) == 1 and is_num(args[0]):
                return args[0]
            return Opaque("call %s" % f.id)
        fv = self.ev(f, env)
        if isinstance(fv, tuple) and fv and fv[0] == 'npfunc':
            return self.npcall(fv[1], args, kw, n)
        if isinstance(fv, tuple) and fv and fv[0] == 'method':
            base, meth = fv[1], fv[2]
            if meth == "copy" and not args:
                return base
            if meth == "transpose" and isinstance(base, Arr):
                perm = list(args[0]) if len(args) == 1 and isinstance(args[0], (list, tuple)) else list(args)
                return self.transpose(base, perm)
            if meth == "reshape":
                return Opaque("reshape")
            return Opaque("method %s" % meth)
        return Opaque("call `%s`" % ast.unparse(f)[:40])

    def transpose(self, a, perm):
        nd = len(a.shape)
        if perm == list(range(nd)):
            return a
        if nd == 2 and perm == [1, 0]:
            return Arr([list(c) for c in zip(*a.data)])
        return Opaque("transpose %s" % perm)

    def npcall(self, name, args, kw, node):
        if name in self.calls:
            return self.calls[name](args, kw)
        if name in ("array", "asarray"):
            a = args[0]
            if isinstance(a, Arr):
                return a

            def conv(x):
                if isinstance(x, Arr):
                    return conv(x.data)
                if isinstance(x, (list, tuple)) and not is_tree(x):
                    return [conv(y) for y in x]
                return x
            if isinstance(a, (list, tuple)) and not is_tree(a):
                d = conv(a)
                return Opaque("array of opaque") if contains_opaque(d) else Arr(d)
            return a
        if name == "sqrt" and len(args) == 1:
            a = args[0]
            if is_num(a) and Fraction(a) == 2:
                return ('v', 'r2')
            return Opaque("np.sqrt(%r)" % (a,))
        if name == "zeros":
            shp = args[0]
            if isinstance(shp, int):
                shp = (shp,)
            if isinstance(shp, (tuple, list)) and all(isinstance(k, int) for k in shp):
                def z(s):
                    return [z(s[1:]) for _ in range(s[0])] if s else 0
                return Arr(z(list(shp)))
            return Opaque("np.zeros(%r)" % (shp,))
        if name == "eye" and len(args) == 1 and isinstance(args[0], int):
            k = args[0]
            return Arr([[1 if i == j else 0 for j in range(k)] for i in range(k)])
        if name == "cross" and len(args) == 2 and all(isinstance(a, Arr) and a.shape == (3,) for a in args):
            a, b = args[0].data, args[1].data
            return Arr([mk('-', mk('*', a[1], b[2]), mk('*', a[2], b[1])),
                        mk('-', mk('*', a[2], b[0]), mk('*', a[0], b[2])),
                        mk('-', mk('*', a[0], b[1]), mk('*', a[1], b[0]))])
        if name == "concatenate":
            parts = args[0]
            ax = kw.get("axis", args[1] if len(args) > 1 else 0)
            if isinstance(parts, (tuple, list)) and all(isinstance(p, Arr) for p in parts) and ax in (0, 1):
                if ax == 0:
                    return Arr(sum([p.data for p in parts], []))
                rows = len(parts[0].data)
                if any(len(p.data) != rows for p in parts):
                    raise TranslateError("%s: concatenate shapes" % self.where)
                return Arr([sum([p.data[i] for p in parts], []) for i in range(rows)])
            return Opaque("np.concatenate")
        if name == "transpose" and len(args) == 2 and isinstance(args[0], Arr):
            return self.transpose(args[0], list(args[1]))
        if name == "einsum":
            return self.einsum(args)
        if name == "linalg.norm":
            if len(args) == 1 and isinstance(args[0], Arr) and len(args[0].shape) == 1 and kw.get("axis", 0) == 0:
                return self.norm_of(args[0])
            return Opaque("np.linalg.norm")
        if name == "linalg.inv" and len(args) == 1:
            return Sym('inv', (args[0],), getattr(args[0], "shape", None))
        if name == "ones":
            return Opaque("np.ones")
        return Opaque("np.%s" % name)

    def einsum(self, args):
        if not args or not isinstance(args[0], str):
            return Opaque("einsum subscripts")
        spec, ops = args[0].replace(" ", ""), args[1:]
        if "->" not in spec:
            return Opaque("einsum without ->")
        ins, out = spec.split("->")
        ins = ins.split(",")
        if len(ins) != len(ops):
            return Opaque("einsum arity")
        if any(isinstance(o, Opaque) for o in ops):
            return Opaque("einsum of opaque")
        if any(isinstance(o, Sym) for o in ops):
            return Sym('einsum', (spec,) + tuple(ops))
        dims = {}
        for s, o in zip(ins, ops):
            shp = o.shape if isinstance(o, Arr) else ()
            if len(shp) != len(s):
                return Opaque("einsum rank mismatch %s" % spec)
            for ch, k in zip(s, shp):
                if dims.setdefault(ch, k) != k:
                    raise TranslateError("%s: einsum dimension mismatch %s" % (self.where, spec))
        summed = [c for c in dims if c not in out]

        def entry(assign):
            acc = C(0)
            for vals in itertools.product(*[range(dims[c]) for c in summed]):
                a = dict(assign)
                a.update(zip(summed, vals))
                term = C(1)
                for s, o in zip(ins, ops):
                    x = o
                    if isinstance(o, Arr):
                        x = o.data
                        for ch in s:
                            x = x[a[ch]]
                    term = mk('*', term, x if not isinstance(x, Sym) else x)
                acc = mk('+', acc, term)
            return acc

        def build(k, assign):
            if k == len(out):
                return entry(assign)
            return [build(k + 1, dict(assign, **{out[k]: i})) for i in range(dims[out[k]])]
        r = build(0, {})
        return Arr(r) if isinstance(r, list) else r

    def norm_of(self, vec):
        """euclidean norm of a symbolic vector -> a named positive variable; set by clients."""
        return Opaque("np.linalg.norm of a vector the client did not name")
