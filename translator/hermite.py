"""Translate EULER_BERNOULLI2..5._Hermitian_{N,dN,ddN,dddN} (EasyFEA/FEM/Elems/_beam.py)."""
import ast
import os
from . import pyexpr, elems
from .pyexpr import TranslateError

TABLES = ["_Hermitian_N", "_Hermitian_dN", "_Hermitian_ddN", "_Hermitian_dddN"]


def read_hermite(repo, lagr=None):
    lagr = lagr or elems.read_elems(repo)
    path = os.path.join(repo, "EasyFEA/FEM/Elems/_beam.py")
    tree = ast.parse(open(path).read())
    out = {}
    for c in tree.body:
        if not (isinstance(c, ast.ClassDef) and c.name.startswith("EULER_BERNOULLI")):
            continue
        seg = None
        for b in c.bases:
            if isinstance(b, ast.Attribute) and b.attr.startswith("SEG"):
                seg = b.attr
        if seg is None or seg not in lagr:
            raise TranslateError("%s: SEG base class not found" % c.name)
        meths = {m.name: m for m in c.body if isinstance(m, ast.FunctionDef)}
        rec = {"seg": seg, "nodes": [r[0] for r in lagr[seg]["nodes"]], "tables": {}, "lines": {}}
        n = 2 * len(rec["nodes"])
        for t in TABLES:
            if t not in meths:
                raise TranslateError("%s: no %s" % (c.name, t))
            rec["lines"][t] = meths[t].lineno
            v = elems._Body(meths[t], "%s.%s" % (c.name, t), 1).result
            flat = elems._flatten(v)
            if len(flat) != n or not all(isinstance(x, tuple) and x[0] == 'lam' for x in flat):
                raise TranslateError("%s.%s: expected %d lambdas" % (c.name, t, n))
            rec["tables"][t] = [x[1] for x in flat]
        out[c.name] = rec
    if sorted(out) != ["EULER_BERNOULLI%d" % k for k in (2, 3, 4, 5)]:
        raise TranslateError("Hermite families found: %s" % sorted(out))
    return out


def emit_coq(h):
    L = ["(* GENERATED from EasyFEA/FEM/Elems/_beam.py by translator/hermite.py — do not edit *)",
         "From Coq Require Import QArith List String Ring_polynom.",
         "From EFLib Require Import PolyQ ElemDefs HermDefs.",
         "Import ListNotations.", "Open Scope string_scope."]
    names = []
    for name, r in h.items():
        def lst(t):
            return "[" + ";\n   ".join(pyexpr.coq(x) for x in t) + "]"
        L.append("Definition h_%s : herm := {| hname := \"%s\"; hnodes := [%s];\n  hN := %s;\n  hdN := %s;\n  hddN := %s;\n  hdddN := %s |}." % (
            name, name, "; ".join(pyexpr.qlit(x) for x in r["nodes"]),
            lst(r["tables"]["_Hermitian_N"]), lst(r["tables"]["_Hermitian_dN"]),
            lst(r["tables"]["_Hermitian_ddN"]), lst(r["tables"]["_Hermitian_dddN"])))
        names.append("h_" + name)
    L.append("Definition all_herm : list herm := [%s]." % "; ".join(names))
    return "\n".join(L) + "\n"
