"""C20 — fail-closed translator of `_Simu.Calc_Energy` (EasyFEA/Simulations/_simu.py) into the small
expression language of coq/model/C20_CalcEnergy.v.

Accepted body: optional docstring; `if dofs is None: dofs = self.Get_dofs()`; straight-line
assignments `name = expr` (inlined); `return [Reduce_sum(] expr [)]` where expr is built from the
parameters A (matrix), x (vector), dofs with
    v[dofs]           restriction of a FULL vector to the owned dofs
    M[dofs]           rows of a matrix            M[:, dofs]  columns of a matrix
    a @ b             matrix @ vector  or  vector @ vector (dot product)
    c * e , e * c     scaling by a numeric literal
Anything else raises TranslateError (the check then reports that the theorem no longer applies)."""
import ast
import os
from fractions import Fraction


class TranslateError(Exception):
    pass


def _find(tree):
    for node in ast.walk(tree):
        if isinstance(node, ast.ClassDef) and node.name == "_Simu":
            for f in node.body:
                if isinstance(f, ast.FunctionDef) and f.name == "Calc_Energy":
                    return f
    raise TranslateError("_Simu.Calc_Energy not found")


def _is_dofs(n, env):
    return isinstance(n, ast.Name) and n.id == "dofs"


def _expr(n, env, src):
    """-> (type, tree) with type in {'vec','mat','scal'}"""
    if isinstance(n, ast.Name):
        if n.id in env:
            return env[n.id]
        if n.id == "x":
            return ("vec", "VX")
        if n.id == "A":
            return ("mat", "MA")
        raise TranslateError("line %d: unknown name %r" % (n.lineno, n.id))
    if isinstance(n, ast.Subscript):
        t, e = _expr(n.value, env, src)
        sl = n.slice
        if _is_dofs(sl, env):
            if t == "vec":
                return ("vec", "(VRestr %s)" % e)
            if t == "mat":
                return ("mat", "(MRows %s)" % e)
        if isinstance(sl, ast.Tuple) and len(sl.elts) == 2 and isinstance(sl.elts[0], ast.Slice) \
                and sl.elts[0].lower is None and sl.elts[0].upper is None and sl.elts[0].step is None and _is_dofs(sl.elts[1], env) and t == "mat":
            return ("mat", "(MCols %s)" % e)
        raise TranslateError("line %d: unsupported indexing %s" % (n.lineno, ast.get_source_segment(src, n)))
    if isinstance(n, ast.BinOp) and isinstance(n.op, ast.MatMult):
        ta, a = _expr(n.left, env, src)
        tb, b = _expr(n.right, env, src)
        if ta == "mat" and tb == "vec":
            return ("vec", "(VMatVec %s %s)" % (a, b))
        if ta == "vec" and tb == "vec":
            return ("scal", "(EDot %s %s)" % (a, b))
        raise TranslateError("line %d: unsupported product %s @ %s" % (n.lineno, ta, tb))
    if isinstance(n, ast.BinOp) and isinstance(n.op, ast.Mult):
        for c, e in ((n.left, n.right), (n.right, n.left)):
            if isinstance(c, ast.Constant) and isinstance(c.value, (int, float)) and not isinstance(c.value, bool):
                fr = Fraction(ast.get_source_segment(src, c))
                t, ee = _expr(e, env, src)
                q = "(%d#%d)" % (fr.numerator, fr.denominator)
                if t == "scal":
                    return ("scal", "(EScale %s %s)" % (q, ee))
                if t == "vec":
                    return ("vec", "(VScale %s %s)" % (q, ee))
        raise TranslateError("line %d: unsupported multiplication %s" % (n.lineno, ast.get_source_segment(src, n)))
    if isinstance(n, ast.BinOp) and isinstance(n.op, ast.Div) and isinstance(n.right, ast.Constant) and isinstance(n.right.value, (int, float)) \
            and not isinstance(n.right.value, bool) and n.right.value != 0:
        fr = 1 / Fraction(ast.get_source_segment(src, n.right))
        t, ee = _expr(n.left, env, src)
        q = "(%d#%d)" % (fr.numerator, fr.denominator)
        if t == "scal":
            return ("scal", "(EScale %s %s)" % (q, ee))
        if t == "vec":
            return ("vec", "(VScale %s %s)" % (q, ee))
    if isinstance(n, ast.Call) and isinstance(n.func, ast.Attribute) and n.func.attr == "dot" and len(n.args) == 1 and not n.keywords:
        # a.dot(b) == a @ b
        return _expr(ast.BinOp(left=n.func.value, op=ast.MatMult(), right=n.args[0], lineno=n.lineno), env, src)
    if isinstance(n, ast.Call):
        seg = ast.get_source_segment(src, n)
        if seg in env:
            return env[seg]
    raise TranslateError("line %d: unsupported expression %s" % (getattr(n, "lineno", 0), ast.dump(n)[:80]))


def read_calc_reaction(repo):
    """`_Simu.Calc_Reaction`: every write into `reaction` must be `reaction[dofs] (+)= <matrix>[dofs] @ <state vector>`
    with the pairs (K, u_n), (C, v_n), (M, a_n); `dofs` may only be the owned dofs or the given dofs filtered by
    them; the function returns `Reduce_sum(reaction)` (MPI) or `reaction[dofs]` (serial)."""
    path = os.path.join(repo, "EasyFEA", "Simulations", "_simu.py")
    src = open(path).read()
    tree = ast.parse(src)
    f = None
    for node in ast.walk(tree):
        if isinstance(node, ast.ClassDef) and node.name == "_Simu":
            for g in node.body:
                if isinstance(g, ast.FunctionDef) and g.name == "Calc_Reaction":
                    f = g
    if f is None:
        raise TranslateError("_Simu.Calc_Reaction not found")
    pairs = {"K": "self._Get_u_n(problemType)", "C": "self._Get_v_n(problemType)", "M": "self._Get_a_n(problemType)"}
    terms = []
    returns = []
    # names of the locals are free: the accumulated vector is the one initialised by np.zeros, the owned dofs the one
    # assigned self.Get_dofs(problemType), state vectors may be bound to locals first
    rv, owned, alias = None, None, {}
    for st in ast.walk(f):
        if isinstance(st, ast.Assign) and len(st.targets) == 1 and isinstance(st.targets[0], ast.Name):
            v = ast.get_source_segment(src, st.value)
            if v.startswith("np.zeros("):
                rv = st.targets[0].id
            elif v == "self.Get_dofs(problemType)":
                owned = st.targets[0].id
            elif v in pairs.values():
                alias[st.targets[0].id] = v
    if rv is None or owned is None:
        raise TranslateError("Calc_Reaction: the zero-initialised result vector or the owned dofs were not found")
    for st in ast.walk(f):
        if isinstance(st, (ast.Assign, ast.AugAssign)):
            tgt = st.targets[0] if isinstance(st, ast.Assign) else st.target
            if isinstance(st, ast.Assign) and len(st.targets) != 1:
                raise TranslateError("line %d: multiple assignment targets" % st.lineno)
            seg = ast.get_source_segment(src, tgt)
            if isinstance(tgt, ast.Name) and tgt.id == rv:
                if not ast.get_source_segment(src, st.value).startswith("np.zeros("):
                    raise TranslateError("line %d: reaction is not initialised with zeros" % st.lineno)
                continue
            if isinstance(tgt, ast.Name) and tgt.id == "dofs":
                v = ast.get_source_segment(src, st.value)
                if v not in (owned, "dofs[np.isin(dofs, %s)]" % owned):
                    raise TranslateError("line %d: dofs = %s is neither the owned dofs nor the given dofs filtered by them" % (st.lineno, v))
                continue
            if isinstance(tgt, ast.Name) and (tgt.id == owned or tgt.id in alias):
                continue
            if seg is not None and (seg == rv or seg.startswith(rv + "[")):
                if seg != rv + "[dofs]":
                    raise TranslateError("line %d: write into %s (only reaction[dofs] is accepted)" % (st.lineno, seg))
                if isinstance(st, ast.AugAssign) and not isinstance(st.op, ast.Add):
                    raise TranslateError("line %d: unsupported augmented assignment" % st.lineno)
                v = st.value
                if not (isinstance(v, ast.BinOp) and isinstance(v.op, ast.MatMult)):
                    raise TranslateError("line %d: term is not a matrix-vector product" % st.lineno)
                mats = [n.id for n in ast.walk(v.left) if isinstance(n, ast.Name) and n.id in pairs]
                if len(mats) != 1:
                    raise TranslateError("line %d: cannot identify the matrix of the term" % st.lineno)
                env = {mats[0]: ("mat", "MA"), pairs[mats[0]]: ("vec", "VX")}
                for nm, call in alias.items():
                    if call == pairs[mats[0]]:
                        env[nm] = ("vec", "VX")
                t, e = _expr(v, env, src)
                if t != "vec":
                    raise TranslateError("line %d: term is not a vector" % st.lineno)
                terms.append((mats[0], e, isinstance(st, ast.AugAssign)))
        if isinstance(st, ast.Return) and st.value is not None:
            returns.append(ast.get_source_segment(src, st.value))
    if not terms or terms[0][0] != "K" or terms[0][2]:
        raise TranslateError("the first write into reaction[dofs] is not the K term")
    if sorted(returns) != sorted(["Reduce_sum(%s)" % rv, "%s[dofs]" % rv]):
        raise TranslateError("Calc_Reaction returns %s (expected Reduce_sum(reaction) under MPI, reaction[dofs] in serial)" % returns)
    return {"terms": terms, "line": f.lineno}


def emit_coq_reaction(r):
    return ("(* GENERATED from EasyFEA/Simulations/_simu.py (_Simu.Calc_Reaction, line %d) by translator/C20_energy.py *)\n"
            "From Coq Require Import QArith List.\nFrom EFModel Require Import C20_CalcEnergy.\nImport ListNotations.\n"
            "(* one entry per write `reaction[dofs] (+)= M[dofs] @ state`; MA/VX stand for the pair (K,u_n), (C,v_n) or (M,a_n) *)\n"
            "Definition calc_reaction_terms : list vexpr := [%s].\n"
            % (r["line"], "; ".join(e for _, e, _ in r["terms"])))


def read_calc_energy(repo):
    path = os.path.join(repo, "EasyFEA", "Simulations", "_simu.py")
    src = open(path).read()
    f = _find(ast.parse(src))
    args = [a.arg for a in f.args.args]
    if args[:4] != ["self", "A", "x", "dofs"]:
        raise TranslateError("Calc_Energy signature changed: %s" % args)
    env = {}
    reduce_sum = False
    body = list(f.body)
    if body and isinstance(body[0], ast.Expr) and isinstance(body[0].value, ast.Constant) and isinstance(body[0].value.value, str):
        body = body[1:]
    result = None
    for st in body:
        if isinstance(st, ast.If):
            # if dofs is None: dofs = self.Get_dofs()
            ok = (isinstance(st.test, ast.Compare) and isinstance(st.test.left, ast.Name) and st.test.left.id == "dofs"
                  and len(st.test.ops) == 1 and isinstance(st.test.ops[0], ast.Is) and isinstance(st.test.comparators[0], ast.Constant)
                  and st.test.comparators[0].value is None and not st.orelse and len(st.body) == 1 and isinstance(st.body[0], ast.Assign)
                  and len(st.body[0].targets) == 1 and isinstance(st.body[0].targets[0], ast.Name) and st.body[0].targets[0].id == "dofs"
                  and isinstance(st.body[0].value, ast.Call) and ast.get_source_segment(src, st.body[0].value) == "self.Get_dofs()")
            if not ok:
                raise TranslateError("line %d: unsupported if statement" % st.lineno)
            continue
        if isinstance(st, ast.Assign) and len(st.targets) == 1 and isinstance(st.targets[0], ast.Name):
            name = st.targets[0].id
            if name in ("A", "x", "dofs"):
                raise TranslateError("line %d: parameter %s is reassigned" % (st.lineno, name))
            env[name] = _expr(st.value, env, src)
            continue
        if isinstance(st, ast.Return):
            v = st.value
            if isinstance(v, ast.Call) and isinstance(v.func, ast.Name) and v.func.id == "Reduce_sum" and len(v.args) == 1 and not v.keywords:
                reduce_sum = True
                v = v.args[0]
            t, e = _expr(v, env, src)
            if t != "scal":
                raise TranslateError("line %d: Calc_Energy does not return a scalar form" % st.lineno)
            result = e
            break
        raise TranslateError("line %d: unsupported statement %s" % (st.lineno, type(st).__name__))
    if result is None:
        raise TranslateError("Calc_Energy has no return")
    return {"tree": result, "reduce_sum": reduce_sum, "line": f.lineno}


def emit_coq(r):
    return ("(* GENERATED from EasyFEA/Simulations/_simu.py (_Simu.Calc_Energy, line %d) by translator/C20_energy.py *)\n"
            "From Coq Require Import QArith.\nFrom EFModel Require Import C20_CalcEnergy.\n"
            "Definition calc_energy_src : sexpr := %s.\nDefinition calc_energy_reduce_sum : bool := %s.\n"
            % (r["line"], r["tree"], "true" if r["reduce_sum"] else "false"))


# ----------------------------------------------------------------------------------------------
# Mesh.Merge: the point relabelling step (EasyFEA/FEM/_mesh.py), structural, fail closed
# ----------------------------------------------------------------------------------------------
class _Canon(ast.NodeTransformer):
    def __init__(self, defs):
        self.defs = defs

    def _comp(self, node):
        bound = {n.id for g in node.generators for n in ast.walk(g.target) if isinstance(n, ast.Name)}
        saved = self.defs
        self.defs = {k: v for k, v in saved.items() if k not in bound}
        try:
            return self.generic_visit(node)
        finally:
            self.defs = saved

    visit_ListComp = visit_GeneratorExp = visit_SetComp = visit_DictComp = _comp

    def visit_Name(self, node):
        d = self.defs.get(node.id)
        if d:
            return ast.Name(id="{" + "|".join(sorted(set(d))) + "}", ctx=ast.Load())
        return node


def _canon_locals(f):
    """canonical (fully inlined, whitespace-free) defining expressions of the locals of a function: independent of
    the NAMES of the locals and of the order of independent statements; several definitions (branches) are kept as a
    sorted set {a|b}; tuple targets become item<k>(expr); loop variables iter<k>(iterable)."""
    defs = {}

    def canon(e):
        import copy
        t = _Canon(defs).visit(copy.deepcopy(e))
        return "".join(ast.unparse(t).split())

    def bind(target, text):
        if isinstance(target, ast.Name):
            defs.setdefault(target.id, []).append(text)
        elif isinstance(target, (ast.Tuple, ast.List)):
            for k, el in enumerate(target.elts):
                bind(el, "item%d(%s)" % (k, text))

    def walk(stmts):
        for st in stmts:
            if isinstance(st, ast.Assign):
                c = canon(st.value)
                for tg in st.targets:
                    bind(tg, c)
            elif isinstance(st, ast.AnnAssign) and st.value is not None:
                bind(st.target, canon(st.value))
            elif isinstance(st, ast.For):
                bind(st.target, "iter(%s)" % canon(st.iter))
                walk(st.body)
                walk(st.orelse)
            elif isinstance(st, ast.If):
                walk(st.body)
                walk(st.orelse)
            elif isinstance(st, (ast.With, ast.Try)):
                walk(st.body)
    walk(f.body)
    return defs, canon


def read_merge_relabel(repo):
    """structural check of the relabelling step of Mesh.Merge, independent of the names of the locals and of the order
    of independent statements (helper extraction is NOT supported: the step must stay inside Mesh.Merge)."""
    path = os.path.join(repo, "EasyFEA", "FEM", "_mesh.py")
    src = open(path).read()
    f = None
    for node in ast.walk(ast.parse(src)):
        if isinstance(node, ast.ClassDef) and node.name == "Mesh":
            for g in node.body:
                if isinstance(g, ast.FunctionDef) and g.name == "Merge":
                    f = g
    if f is None:
        raise TranslateError("Mesh.Merge not found")
    defs, canon = _canon_locals(f)
    flat = {k: sorted(set(v)) for k, v in defs.items()}

    def find(pred, what):
        hits = [k for k, v in flat.items() if pred(v)]
        if not hits:
            raise TranslateError("Mesh.Merge: no local variable is %s" % what)
        return hits[0]

    # all points / their number
    allc = find(lambda v: len(v) == 1 and v[0].startswith("np.vstack("), "the stacked coordinates np.vstack(coords)")
    A = "{" + "|".join(flat[allc]) + "}"
    # pairs within the ABSOLUTE tolerance mergePointsTol
    pairs = find(lambda v: len(v) == 1 and v[0].startswith("cKDTree(" + A + ").query_pairs(mergePointsTol,"), "cKDTree(all_coords).query_pairs(mergePointsTol, ...)")
    P = "{" + "|".join(flat[pairs]) + "}"
    r1 = "np.concatenate([%s[:,0],%s[:,1]])" % (P, P)
    r2 = "np.concatenate([%s[:,1],%s[:,0]])" % (P, P)
    # labels: connected components of the SYMMETRIC graph, or arange(N) when there is no pair
    def is_labels(v):
        cc = [x for x in v if x.startswith("item1(connected_components(") and x.endswith(",directed=False))")]
        ar = [x for x in v if x.startswith("np.arange(")]
        return len(v) == 2 and len(cc) == 1 and len(ar) == 1 and "csr_matrix" in cc[0] and r1 in cc[0] and r2 in cc[0] \
            and ("(%s,%s)" % ("{" + r1 + "}", "{" + r2 + "}") in cc[0] or "(%s,%s)" % ("{" + r2 + "}", "{" + r1 + "}") in cc[0])
    labels = find(is_labels, "`_, labels = connected_components(symmetric csr graph of the pairs, directed=False)` / `np.arange(N)`")
    Lc = "{" + "|".join(flat[labels]) + "}"
    # old_to_new = labels (mergePoints) | arange(N)
    o2n = find(lambda v: len(v) == 2 and Lc in v and any(x.startswith("np.arange(") for x in v), "old_to_new = labels / np.arange(N)")
    # new_coords = all_coords[first index of every label] | all_coords
    first = "item1(np.unique(%s,return_index=True))" % Lc
    find(lambda v: len(v) == 2 and ("%s[{%s}]" % (A, first)) in v and A in v, "new_coords = all_coords[first_in_component] / all_coords")
    O = "{" + "|".join(flat[o2n]) + "}"
    text = canon(ast.Module(body=f.body, type_ignores=[]))
    uses = [text[i + len(O):] for i in range(len(text)) if text.startswith(O + "[", i)]
    # old_to_new[<group>.connect + <offset>] with both operands loop variables
    if not any(u.startswith("[{item1(iter(") and ".connect+{item" in u[:u.find(".connect+") + 20] for u in uses if ".connect+" in u):
        raise TranslateError("Mesh.Merge: connectivity is not remapped by old_to_new[groupElem.connect + off]")
    # mapping = [old_to_new[off : off + s] for off, s in zip(offsets, sizes)]
    import re
    if not any(re.match(r"^\[(\w+):\1\+(\w+)\]for\1,\2inzip\(", u) for u in uses):
        raise TranslateError("Mesh.Merge: mapping is not [old_to_new[off : off + s] for off, s in zip(offsets, sizes)]")
    return {"line": f.lineno}


def emit_coq_merge(r):
    return ("(* GENERATED from EasyFEA/FEM/_mesh.py (Mesh.Merge, line %d) by translator/C20_energy.py *)\n"
            "From EFModel Require Import C20_MergeSpec.\n"
            "Definition merge_relabel_src : relabel := ConnectedComponentsFirstOccurrence.\n"
            "Definition merge_remap_src : remap_kind := RemapOldToNewOfOffsetConnect.\n" % r["line"])
