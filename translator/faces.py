"""C08 — translate the index tables of the element classes (`surfaces`, `faces`, `segments`,
`triangles`, `origin` properties in EasyFEA/FEM/Elems/_{seg,tri,quad,tetra,hexa,prism}.py) and
the cost function `Eval` nested in `_GroupElem._Get_Mapping` into python data / Coq text.

Pure `ast` (EasyFEA is not imported), fail-closed: a property body that is not
  [docstring]  return <form>
with <form> one of
  np.array(<nested list literal of ints>[, dtype=...])      literal table
  [<ints>]                                                   literal list
  np.arange(self.nPe, dtype=int)                             0..nPe-1 (the element is its own face)
  np.empty(0, dtype=int)                                     no faces (1-D)
  self.<other table property>                                alias
  super().<same property>                                    inherited from _GroupElem
raises TranslateError.  Inherited tables follow the base class: `origin` -> [0] (broadcast to
dim zeros), `triangles` -> none, `segments` -> the base-class algorithm for dim 1/2 (transcribed
below; the correspondence run compares every translated table with the property of the live
class, so a change of the base algorithm is seen)."""
import ast
import os
from fractions import Fraction

from .pyexpr import TranslateError
from . import elems as T_elems

PROPS = ["surfaces", "faces", "segments", "triangles", "origin"]
PARENT = {"SEG": "SEG2", "TRI": "TRI3", "QUAD": "QUAD4", "TETRA": "TETRA4", "HEXA": "HEXA8", "PRISM": "PRISM6"}


def read_gmsh_full(repo):
    """name -> (nPe, dim, order, Nvertex) from DICT_GMSH_DATA."""
    path = os.path.join(repo, "EasyFEA/FEM/_group_elem.py")
    tree = ast.parse(open(path).read())
    for c in tree.body:
        if isinstance(c, ast.ClassDef) and c.name == "GroupElemFactory":
            for st in c.body:
                tgt = None
                if isinstance(st, ast.AnnAssign) and isinstance(st.target, ast.Name):
                    tgt, val = st.target.id, st.value
                elif isinstance(st, ast.Assign) and isinstance(st.targets[0], ast.Name):
                    tgt, val = st.targets[0].id, st.value
                if tgt == "DICT_GMSH_DATA":
                    if not isinstance(val, ast.Dict):
                        raise TranslateError("DICT_GMSH_DATA is not a dict literal")
                    res = {}
                    for v in val.values:
                        if not (isinstance(v, ast.Tuple) and len(v.elts) >= 5 and isinstance(v.elts[0], ast.Attribute)):
                            raise TranslateError("DICT_GMSH_DATA entry")
                        res[v.elts[0].attr] = tuple(ast.literal_eval(e) for e in v.elts[1:5])
                    return res
    raise TranslateError("DICT_GMSH_DATA not found")


def _int_table(node, where):
    try:
        v = ast.literal_eval(node)
    except Exception:
        raise TranslateError("%s: not a literal table: %s" % (where, ast.unparse(node)[:60]))

    def ok(x):
        if isinstance(x, bool):
            return False
        if isinstance(x, int):
            return True
        return isinstance(x, list) and all(ok(y) for y in x)
    if not (isinstance(v, list) and ok(v)):
        raise TranslateError("%s: table entries must be (nested lists of) ints" % where)
    return v


def _is_self_attr(n, attr=None):
    return (isinstance(n, ast.Attribute) and isinstance(n.value, ast.Name) and n.value.id == "self"
            and (attr is None or n.attr == attr))


def _prop_form(fn, where):
    body = [st for st in fn.body
            if not (isinstance(st, ast.Expr) and isinstance(st.value, ast.Constant) and isinstance(st.value.value, str))]
    if len(body) != 1 or not isinstance(body[0], ast.Return) or body[0].value is None:
        raise TranslateError("%s: body is not a single return" % where)
    v = body[0].value
    if isinstance(v, ast.List):
        return ("lit", _int_table(v, where))
    if _is_self_attr(v):
        if v.attr not in PROPS:
            raise TranslateError("%s: alias of self.%s" % (where, v.attr))
        return ("alias", v.attr)
    if (isinstance(v, ast.Attribute) and isinstance(v.value, ast.Call) and isinstance(v.value.func, ast.Name)
            and v.value.func.id == "super" and not v.value.args):
        if v.attr != fn.name:
            raise TranslateError("%s: returns super().%s" % (where, v.attr))
        return ("super",)
    if isinstance(v, ast.Call) and isinstance(v.func, ast.Attribute) and isinstance(v.func.value, ast.Name) and v.func.value.id == "np":
        kw = {k.arg: k.value for k in v.keywords}
        if set(kw) - {"dtype"}:
            raise TranslateError("%s: keyword %s" % (where, sorted(kw)))
        if "dtype" in kw and not (isinstance(kw["dtype"], ast.Name) and kw["dtype"].id in ("int", "object")):
            raise TranslateError("%s: dtype %s" % (where, ast.unparse(kw["dtype"])))
        if v.func.attr == "array" and len(v.args) == 1:
            return ("lit", _int_table(v.args[0], where))
        if v.func.attr == "arange" and len(v.args) == 1 and _is_self_attr(v.args[0], "nPe"):
            return ("arange_nPe",)
        if v.func.attr == "empty" and len(v.args) == 1 and isinstance(v.args[0], ast.Constant) and v.args[0].value == 0:
            return ("lit", [])
    raise TranslateError("%s: unsupported form %s" % (where, ast.unparse(v)[:70]))


def base_segments(dim, order, nvertex):
    """_GroupElem.segments (base class), dim 1 and 2."""
    n = 2 + order - 1
    if dim == 1:
        seg = [[0] * n]
        seg[0][0], seg[0][-1] = 0, 1
        if n > 2:
            m = 1
            seg[0][1:n - 1] = list(range(m + 1, m + 1 + order - 1))
        return seg
    if dim == 2:
        seg = [[0] * n for _ in range(nvertex)]
        for i in range(nvertex):
            seg[i][0] = i
            seg[i][-1] = (i + 1) % nvertex
        if n > 2:
            for i in range(nvertex):
                m = max(max(r) for r in seg)
                seg[i][1:n - 1] = list(range(m + 1, m + 1 + order - 1))
        return seg
    return None  # base class raises for 3-D


def read_faces(repo):
    """-> dict name -> {dim, order, nPe, nvertex, parent, surfaces, faces, segments, triangles,
    origin (list of Fractions of length dim), lines}"""
    data = read_gmsh_full(repo)
    out = {}
    for f in T_elems.FILES:
        path = os.path.join(repo, "EasyFEA/FEM/Elems", f + ".py")
        tree = ast.parse(open(path).read())
        for c in tree.body:
            if not isinstance(c, ast.ClassDef):
                continue
            if c.name not in data:
                raise TranslateError("class %s not in DICT_GMSH_DATA" % c.name)
            nPe, dim, order, nvert = data[c.name]
            meths = {m.name: m for m in c.body if isinstance(m, ast.FunctionDef)}
            forms = {}
            lines = {}
            for p in PROPS:
                if p in meths:
                    forms[p] = _prop_form(meths[p], "%s.%s" % (c.name, p))
                    lines[p] = meths[p].lineno
                else:
                    forms[p] = ("super",)
                    lines[p] = c.lineno

            def resolve(p, depth=0):
                fm = forms[p]
                if fm[0] == "lit":
                    return fm[1]
                if fm[0] == "alias":
                    if depth > 3:
                        raise TranslateError("%s: alias cycle" % c.name)
                    return resolve(fm[1], depth + 1)
                if fm[0] == "arange_nPe":
                    return list(range(nPe))
                # inherited
                if p == "origin":
                    return [0]
                if p == "triangles":
                    return []
                if p == "segments":
                    s = base_segments(dim, order, nvert)
                    if s is None:
                        raise TranslateError("%s.segments: 3-D elements must define it (base class raises)" % c.name)
                    return s
                raise TranslateError("%s.%s is abstract" % (c.name, p))
            rec = {"dim": dim, "order": order, "nPe": nPe, "nvertex": nvert, "file": f + ".py", "lines": lines}
            for p in PROPS:
                rec[p] = resolve(p)
            # shape checks
            for p in ("surfaces", "segments"):
                if not all(isinstance(r, list) for r in rec[p]):
                    raise TranslateError("%s.%s: expected a 2-D table" % (c.name, p))
            fc = rec["faces"]
            if fc and not isinstance(fc[0], list):
                fc = [fc]            # 2-D: the element itself
            rec["faces"] = fc
            if not all(isinstance(t, int) for t in rec["triangles"]) or len(rec["triangles"]) % 3:
                raise TranslateError("%s.triangles: flat list of 3k ints expected" % c.name)
            org = rec["origin"]
            if not all(isinstance(t, int) for t in org) or len(org) not in (1, dim):
                raise TranslateError("%s.origin: %r" % (c.name, org))
            rec["origin"] = [Fraction(x) for x in (org * dim if len(org) == 1 else org)]
            for p in ("surfaces", "faces", "segments"):
                for r in rec[p]:
                    if any((not isinstance(i, int)) or i < 0 or i >= nPe for i in r):
                        raise TranslateError("%s.%s: index out of range" % (c.name, p))
            if any(i < 0 or i >= nPe for i in rec["triangles"]):
                raise TranslateError("%s.triangles: index out of range" % c.name)
            fam = [k for k in PARENT if c.name.startswith(k)]
            if len(fam) != 1:
                raise TranslateError("%s: unknown family" % c.name)
            rec["parent"] = PARENT[fam[0]]
            out[c.name] = rec
    missing = [n for n in data if n != "POINT" and n not in out]
    if missing:
        raise TranslateError("element types without class: %s" % missing)
    return out


# --------------------------------------------------------------------------------------
# the cost function of the iterative inverse map
# --------------------------------------------------------------------------------------
def _find_func(tree, path):
    cur = tree.body
    node = None
    for name in path:
        node = None
        for st in cur:
            if isinstance(st, (ast.ClassDef, ast.FunctionDef)) and st.name == name:
                node = st
                break
        if node is None:
            return None
        cur = node.body
    return node


# ---- name-independent reading ------------------------------------------------------------------
class _Inliner(ast.NodeTransformer):
    """Straight-line symbolic execution of simple statement blocks: every local name is replaced by
    the expression that defines it, so the result does not depend on the names of the locals nor on
    the order of independent statements.  Comprehension variables are renamed canonically.
    Accepted statements: docstrings, `x = e`, `x op= e`, `x[i] op= e`, `if t: <assignments>`,
    the loop `for r in S: while r[-1] == r[0]: r.pop()` (-> __trim_closing__(S)), `return e`."""

    def __init__(self, where):
        self.env = {}
        self.where = where
        self.loc = []
        self.nloc = 0

    # expressions
    def visit_Name(self, n):
        for m in reversed(self.loc):
            if n.id in m:
                return ast.Name(id=m[n.id], ctx=ast.Load())
        if isinstance(n.ctx, ast.Load) and n.id in self.env:
            return ast.parse(ast.unparse(self.env[n.id]), mode="eval").body
        return ast.Name(id=n.id, ctx=ast.Load())

    def _comp(self, n, elts):
        m = {}
        self.loc.append(m)
        gens = []
        for g in n.generators:
            it = self.visit(g.iter)
            for t in ast.walk(g.target):
                if isinstance(t, ast.Name):
                    m[t.id] = "_c%d" % self.nloc
                    self.nloc += 1
            gens.append(ast.comprehension(target=self.visit(g.target), iter=it, ifs=[self.visit(i) for i in g.ifs], is_async=0))
        res = [self.visit(e) for e in elts]
        self.loc.pop()
        return res, gens

    def visit_ListComp(self, n):
        (e,), g = self._comp(n, [n.elt])
        return ast.ListComp(elt=e, generators=g)

    def visit_GeneratorExp(self, n):
        (e,), g = self._comp(n, [n.elt])
        return ast.GeneratorExp(elt=e, generators=g)

    def visit_Lambda(self, n):
        raise TranslateError("%s: lambda inside the block" % self.where)

    def ex(self, node):
        self.nloc = 0
        return ast.fix_missing_locations(self.visit(ast.parse(ast.unparse(node), mode="eval").body))

    # statements
    def run(self, stmts):
        for st in stmts:
            if isinstance(st, ast.Expr) and isinstance(st.value, ast.Constant) and isinstance(st.value.value, str):
                continue
            if isinstance(st, ast.Assign) and len(st.targets) == 1 and isinstance(st.targets[0], ast.Name):
                self.env[st.targets[0].id] = self.ex(st.value)
            elif isinstance(st, ast.AnnAssign) and isinstance(st.target, ast.Name) and st.value is not None:
                self.env[st.target.id] = self.ex(st.value)
            elif isinstance(st, ast.AugAssign) and isinstance(st.target, ast.Name):
                old = self.ex(ast.Name(id=st.target.id, ctx=ast.Load()))
                self.env[st.target.id] = ast.BinOp(left=old, op=st.op, right=self.ex(st.value))
            elif isinstance(st, ast.AugAssign) and isinstance(st.target, ast.Subscript) and isinstance(st.target.value, ast.Name):
                nm = st.target.value.id
                old = self.ex(ast.Name(id=nm, ctx=ast.Load()))
                self.env[nm] = ast.Call(func=ast.Name(id="__aug_%s__" % type(st.op).__name__, ctx=ast.Load()),
                                        args=[old, self.ex(st.target.slice), self.ex(st.value)], keywords=[])
            elif isinstance(st, ast.If) and not st.orelse and all(
                    isinstance(b, ast.Assign) and len(b.targets) == 1 and isinstance(b.targets[0], ast.Name) for b in st.body):
                t = self.ex(st.test)
                for b in st.body:
                    nm = b.targets[0].id
                    old = self.ex(ast.Name(id=nm, ctx=ast.Load()))
                    self.env[nm] = ast.IfExp(test=t, body=self.ex(b.value), orelse=old)
            elif isinstance(st, ast.For) and self._is_trim_loop(st):
                nm = st.iter.id
                old = self.ex(ast.Name(id=nm, ctx=ast.Load()))
                self.env[nm] = ast.Call(func=ast.Name(id="__trim_closing__", ctx=ast.Load()), args=[old], keywords=[])
            elif isinstance(st, ast.Return) and st.value is not None:
                return self.ex(st.value)
            else:
                raise TranslateError("%s: statement `%s`" % (self.where, ast.unparse(st).splitlines()[0][:70]))
        return None

    @staticmethod
    def _is_trim_loop(st):
        if not (isinstance(st.target, ast.Name) and isinstance(st.iter, ast.Name) and not st.orelse and len(st.body) == 1):
            return False
        w = st.body[0]
        v = st.target.id
        return (isinstance(w, ast.While) and not w.orelse and ast.unparse(w.test) == "%s[-1] == %s[0]" % (v, v)
                and len(w.body) == 1 and ast.unparse(w.body[0]) == "%s.pop()" % v)


def _dim3_formula(fn, where):
    """canonical (fully inlined) expression returned by the `dim == 3` branch of Get_pointsInElem."""
    inl = _Inliner(where)
    chain = None
    for st in fn.body:
        if isinstance(st, ast.If):
            if len(st.body) == 1 and isinstance(st.body[0], ast.Return) and not st.orelse:
                continue            # early-exit guard (empty input)
            chain = st
            break
        inl.run([st])
    node = chain
    while node is not None:
        t = ast.unparse(inl.ex(node.test))
        if t in ("self.__dim == 3", "self.dim == 3"):
            r = inl.run(node.body)
            if r is None:
                raise TranslateError("%s: the 3-D branch does not return" % where)
            return ast.unparse(r)
        node = node.orelse[0] if len(node.orelse) == 1 and isinstance(node.orelse[0], ast.If) else None
    raise TranslateError("%s: no `dim == 3` branch" % where)


_PIE_TOL = {"absolute": "1e-12", "relative": "1e-12 * np.abs(self.coord[connect[elem]]).max()"}
_PIE_REF = """
def Get_pointsInElem(self, coordinates_n, elem):
    dim = self.__dim
    connect = self._global_to_local_nodes[self.connect]
    tol = %(tol)s
    if dim == 3:
%(rows)s
        p0_f = [surface[0] for surface in surfaces]
        p1_f = [surface[1] for surface in surfaces]
        p2_f = [surface[-1] for surface in surfaces]
        i_f = Normalize(coord[p1_f] - coord[p0_f])
        j_f = Normalize(coord[p2_f] - coord[p0_f])
        n_f = Normalize(np.cross(i_f, j_f, 1, 1))
%(flip)s
        coordinates_n_i = coordinates_n[:, np.newaxis].repeat(Nface, 1)
        v_f = coordinates_n_i - coord[p0_f]
        t_f = np.einsum("nfi,fi->nf", v_f, n_f, optimize="optimal") <= tol
        filtre = np.sum(t_f, 1)
        idx = np.where(filtre == Nface)[0]
        return idx
"""
_PIE_ROWS = {
    "last1": """
        surfaces = self.surfaces
        coord = self.coord[connect[elem]]
        if self.elemType.startswith("PRISM"):
            surfaces = np.array([surfaces[0, :], surfaces[1, :], surfaces[2, :], surfaces[3, :-1], surfaces[4, :-1]], dtype=object)
        Nface = surfaces.shape[0]
""",
    "closing": """
        coord = self.coord[connect[elem]]
        surfaces = [list(surface) for surface in self.surfaces]
        for surface in surfaces:
            while surface[-1] == surface[0]:
                surface.pop()
        Nface = len(surfaces)
"""}
_PIE_FLIP = {
    "tables": "",
    "centroid": """
        inward_f = np.einsum("fi,fi->f", coord.mean(0) - coord[p0_f], n_f) > 0
        n_f[inward_f] *= -1
"""}


def read_pointin_form(repo):
    """Reads the dim == 3 branch of _GroupElem.Get_pointsInElem.  The branch is executed
    symbolically (every local inlined): the returned index expression must coincide with the one of
    a reference form — independent of the names of the locals and of the order of independent
    statements.  Returns (trim, orient, lineno):
      trim   'last1'   : PRISM rows 3, 4 lose their last entry (`surfaces[3, :-1]`), code as first found
             'closing' : trailing repetitions of the first node are removed from every row
      orient 'tables'  : the half-space normal is cross(p1 - p0, p2 - p0) as the tables give it
             'centroid': that normal is flipped when the element centroid lies on its positive side"""
    path = os.path.join(repo, "EasyFEA/FEM/_group_elem.py")
    tree = ast.parse(open(path).read())
    fn = _find_func(tree, ["_GroupElem", "Get_pointsInElem"])
    if fn is None:
        raise TranslateError("_GroupElem.Get_pointsInElem not found")
    got = _dim3_formula(fn, "Get_pointsInElem (dim 3)")
    # the slack `tol` (absolute 1e-12, or 1e-12 relative to the magnitude of the element's coordinates) is
    # runtime behaviour: the theorems model the tests with tol = 0; both forms are accepted
    for tolform in ("absolute", "relative"):
        for trim in ("last1", "closing"):
            for orient in ("tables", "centroid"):
                ref = ast.parse(_PIE_REF % {"rows": _PIE_ROWS[trim], "flip": _PIE_FLIP[orient], "tol": _PIE_TOL[tolform]}).body[0]
                if _dim3_formula(ref, "reference") == got:
                    return trim, orient, fn.lineno
    raise TranslateError("Get_pointsInElem (dim 3): the half-space test is none of the known forms: %s" % got[:300])


def _outer_bindings(gm, skip):
    outer = {}
    skip_nodes = set(id(n) for n in ast.walk(skip)) if skip is not None else set()
    for n in ast.walk(gm):
        if id(n) in skip_nodes:
            continue
        if isinstance(n, ast.Assign) and len(n.targets) == 1 and isinstance(n.targets[0], ast.Name):
            outer.setdefault(n.targets[0].id, []).append(ast.unparse(n.value))
    return outer


class _MappingNames:
    """classification of the locals of _Get_Mapping by WHAT they are bound to (not by their names)."""

    def __init__(self, outer):
        self.o = outer

    def vals(self, name):
        return set(self.o.get(name, []))

    def kind(self, name, depth=0):
        import re
        v = self.vals(name)
        if not v or depth > 4:
            return None
        if v == {"self._dN()"}:
            return "dN_tild"
        if v == {"self._N()"}:
            return "N_tild"
        if v == {"self.origin"}:
            return "xi0"
        if v == {"self.dim"}:
            return "dim"
        if v == {"self.coord"}:
            return "coord"
        if v == {"self._Get_sysCoord_e()"}:
            return "sys"
        if len(v) == 1:
            m0 = re.match(r"^np\.linalg\.norm\(np\.ptp\((\w+)\[:, :(\w+)\], axis=0\)\)$", next(iter(v)))
            if m0 and self.kind(m0.group(1), depth + 1) == "coordElemBase" and self.kind(m0.group(2), depth + 1) == "dim":
                return "size"             # characteristic length of the element (positive)
        if v == {"self.Get_invF_e_pg(matrixType)"} and self.vals("matrixType") == {"MatrixType.mass"}:
            return "invF"
        if len(v) == 1:
            t = next(iter(v))
            m = re.match(r"^(\w+)\[(\w+)\[e\]\]$", t)
            if m and self.kind(m.group(1), depth + 1) == "coord" and self.vals(m.group(2)) == {"self._global_to_local_nodes[self.connect]"}:
                return "coordElem"
            m = re.match(r"^(\w+)\[0, :(\w+)\]$", t)
            if m and self.kind(m.group(1), depth + 1) == "coordElemBase" and self.kind(m.group(2), depth + 1) == "dim":
                return "x0"
            m = re.match(r"^(\w+)\[:, :(\w+)\]$", t)
            if m and self.kind(m.group(1), depth + 1) == "coordinatesBase" and self.kind(m.group(2), depth + 1) == "dim":
                return "xP_n"
        if len(v) == 2:
            cp = [t for t in v if t.endswith(".copy()")]
            pr = [t for t in v if t.startswith(name + " @ ") and t.endswith("[e]")]
            if len(cp) == 1 and len(pr) == 1 and self.kind(pr[0][len(name) + 3:-3], depth + 1) == "sys":
                base = cp[0][:-len(".copy()")]
                if re.match(r"^\w+$", base) and self.kind(base, depth + 1) == "coordElem":
                    return "coordElemBase"
                m = re.match(r"^coordinates_n\[(\w+)\]$", base)
                if m:
                    return "coordinatesBase"
        return None


def read_eval_form(repo):
    """Symbolically reads the cost function nested in _GroupElem._Get_Mapping (`Eval(xi, xP)`, any
    argument / local names; outer names are identified by what they are bound to).
    Returns ('tangent' | 'iso', lineno).
       tangent :  J = x0 + (xi - xiOrigin) @ (dN(xi) @ X) - xP      (code as first found)
       iso     :  J = N(xi) @ X - xP, possibly divided by the element size  (isoparametric map)
    Anything else -> TranslateError (unknown cost function: the theorems do not apply)."""
    path = os.path.join(repo, "EasyFEA/FEM/_group_elem.py")
    tree = ast.parse(open(path).read())
    gm = _find_func(tree, ["_GroupElem", "_Get_Mapping"])
    if gm is None:
        raise TranslateError("_GroupElem._Get_Mapping not found")
    evals = [n for n in ast.walk(gm) if isinstance(n, ast.FunctionDef) and n is not gm]
    if len(evals) != 1:
        raise TranslateError("_Get_Mapping: expected exactly one nested function (the cost function), found %d" % len(evals))
    ev = evals[0]
    # it must be the function handed to least_squares, called with the query point as extra argument
    uses = [n for n in ast.walk(gm) if isinstance(n, ast.Call) and ast.unparse(n.func).endswith("least_squares")]
    if len(uses) != 1 or not (uses[0].args and isinstance(uses[0].args[0], ast.Name) and uses[0].args[0].id == ev.name):
        raise TranslateError("_Get_Mapping: the nested function %s is not the one minimised by least_squares" % ev.name)
    if len(ev.args.args) != 2:
        raise TranslateError("cost function signature %s" % [a.arg for a in ev.args.args])
    a_xi, a_xp = [a.arg for a in ev.args.args]
    names = _MappingNames(_outer_bindings(gm, ev))
    env = {a_xi: "xi", a_xp: "xP"}

    def sym(n):
        if isinstance(n, ast.Name):
            if n.id in env:
                return env[n.id]
            k = names.kind(n.id)
            if k in ("x0", "xi0", "size"):
                return k
            raise TranslateError("Eval: name %s is bound to %s" % (n.id, sorted(names.vals(n.id)) or "nothing known"))
        if isinstance(n, ast.BinOp):
            op = {ast.Add: "+", ast.Sub: "-", ast.MatMult: "@", ast.Div: "/"}.get(type(n.op))
            if op is None:
                raise TranslateError("Eval: operator %s" % type(n.op).__name__)
            return (op, sym(n.left), sym(n.right))
        if isinstance(n, ast.Call):
            f = ast.unparse(n.func)
            if (f in ("_GroupElem._Eval_Functions", "self._Eval_Functions") and len(n.args) == 2 and not n.keywords
                    and isinstance(n.args[0], ast.Name) and names.kind(n.args[0].id) in ("dN_tild", "N_tild")
                    and ast.unparse(n.args[1]) == "%s.reshape(1, -1)" % a_xi):
                return ("tab", names.kind(n.args[0].id))
            raise TranslateError("Eval: call %s" % ast.unparse(n)[:70])
        if isinstance(n, ast.Subscript):
            idx = ast.unparse(n.slice)
            if isinstance(n.value, ast.Name) and n.value.id not in env and names.kind(n.value.id) == "coordElemBase":
                sl = n.slice
                if (isinstance(sl, ast.Tuple) and len(sl.elts) == 2 and ast.unparse(sl.elts[0]) == ":" and isinstance(sl.elts[1], ast.Slice)
                        and sl.elts[1].lower is None and isinstance(sl.elts[1].upper, ast.Name) and names.kind(sl.elts[1].upper.id) == "dim"):
                    return "X"
                raise TranslateError("Eval: subscript %s" % ast.unparse(n)[:70])
            base = sym(n.value)
            if isinstance(base, tuple) and base[0] == "tab" and idx == "0":
                return ("row0", base[1])                  # (nF, nPe) block of the single point
            if isinstance(base, tuple) and base[0] == "tab" and idx in ("(0, 0)", "0, 0"):
                return ("row00", base[1])
            if isinstance(base, tuple) and base[0] == "row0" and idx == "0":
                return ("row00", base[1])
            raise TranslateError("Eval: subscript %s" % ast.unparse(n)[:70])
        raise TranslateError("Eval: expression %s" % ast.unparse(n)[:70])
    result = None
    for st in ev.body:
        if isinstance(st, ast.Expr) and isinstance(st.value, ast.Constant) and isinstance(st.value.value, str):
            continue
        if isinstance(st, ast.Assign) and len(st.targets) == 1 and isinstance(st.targets[0], ast.Name):
            env[st.targets[0].id] = sym(st.value)
        elif isinstance(st, ast.Return):
            result = sym(st.value)
            break
        else:
            raise TranslateError("Eval: statement %s" % type(st).__name__)
    if result is None:
        raise TranslateError("Eval: no return")
    tangent = ("-", ("+", "x0", ("@", ("-", "xi", "xi0"), ("@", ("row0", "dN_tild"), "X"))), "xP")
    iso = ("-", ("@", ("row00", "N_tild"), "X"), "xP")
    if result == tangent:
        return "tangent", ev.lineno
    if result == iso or result == ("/", iso, "size"):
        # dividing the residual by the (positive) element size changes neither its zeros nor the minimiser
        return "iso", ev.lineno
    raise TranslateError("Eval: unknown cost function %r" % (result,))


def read_affine_branch(repo):
    """Checks that the non-iterative branch of _Get_Mapping assigns
        xiOrigin + (xP_n - x0) @ invF_e_pg[e, 0]
    (possibly with np.asarray around the FeArray), whatever the locals are called.  Returns lineno."""
    path = os.path.join(repo, "EasyFEA/FEM/_group_elem.py")
    tree = ast.parse(open(path).read())
    gm = _find_func(tree, ["_GroupElem", "_Get_Mapping"])
    if gm is None:
        raise TranslateError("_GroupElem._Get_Mapping not found")
    nested = [n for n in ast.walk(gm) if isinstance(n, ast.FunctionDef) and n is not gm]
    names = _MappingNames(_outer_bindings(gm, nested[0] if nested else None))

    def inv_ok(n):
        t = ast.unparse(n)
        for nm in set(x.id for x in ast.walk(n) if isinstance(x, ast.Name)):
            if names.kind(nm) == "invF":
                return t in ("%s[e, 0]" % nm, "np.asarray(%s)[e, 0]" % nm, "np.asarray(%s[e, 0])" % nm)
        return False
    cands = []
    for n in ast.walk(gm):
        if isinstance(n, ast.If) and isinstance(n.test, ast.UnaryOp) and isinstance(n.test.op, ast.Not) and n.orelse:
            for st in n.body:
                if isinstance(st, ast.Assign) and isinstance(st.value, ast.BinOp):
                    cands.append(st)
    for st in cands:
        v = st.value
        if (isinstance(v.op, ast.Add) and isinstance(v.left, ast.Name) and names.kind(v.left.id) == "xi0"
                and isinstance(v.right, ast.BinOp) and isinstance(v.right.op, ast.MatMult)
                and isinstance(v.right.left, ast.BinOp) and isinstance(v.right.left.op, ast.Sub)
                and isinstance(v.right.left.left, ast.Name) and names.kind(v.right.left.left.id) == "xP_n"
                and isinstance(v.right.left.right, ast.Name) and names.kind(v.right.left.right.id) == "x0"
                and inv_ok(v.right.right)):
            return st.lineno
    raise TranslateError("_Get_Mapping: the affine branch `xiOrigin + (xP_n - x0) @ invF_e_pg[e, 0]` was not found%s"
                         % ("" if not cands else " (found: %s)" % ast.unparse(cands[0])[:80]))


def read_syscoord_form(repo):
    """Reads the surface-element branch of _GroupElem._Get_sysCoord_e (statement level, fail-closed):
        i = Normalize(points2 - points1); j = Normalize(points3 - points1);
        k = Normalize(np.cross(i, j, axis=1)); j = Normalize(np.cross(k, i, axis=1))
    with points1/2 = nodes 0/1 of `connect[:, self.faces]` and points3 = node 2 (TRI) / 3 (QUAD), stored as
    the columns 0, 1, 2 of sysCoord_e.  Returns {"TRI": (0, 1, n), "QUAD": (0, 1, m)}."""
    path = os.path.join(repo, "EasyFEA/FEM/_group_elem.py")
    tree = ast.parse(open(path).read())
    fn = _find_func(tree, ["_GroupElem", "_Get_sysCoord_e"])
    if fn is None:
        raise TranslateError("_GroupElem._Get_sysCoord_e not found")
    stmts = [ast.unparse(n) for n in ast.walk(fn) if isinstance(n, (ast.Assign, ast.AugAssign))]
    need = ["connect = connect[:, self.faces]", "points1 = coord[connect[:, 0]]", "points2 = coord[connect[:, 1]]",
            "i = Normalize(points2 - points1)", "j = Normalize(points3 - points1)", "k = Normalize(np.cross(i, j, axis=1))",
            "j = Normalize(np.cross(k, i, axis=1))", "sysCoord_e[:, :, 0] = i", "sysCoord_e[:, :, 1] = j", "sysCoord_e[:, :, 2] = k"]
    for t in need:
        if t not in stmts:
            raise TranslateError("_Get_sysCoord_e: statement `%s` not found" % t)
    # order of the four frame statements
    pos = [stmts.index(t) for t in need[3:7]]
    if stmts.count("j = Normalize(points3 - points1)") != 1 or sorted(pos[1:]) != pos[1:]:
        raise TranslateError("_Get_sysCoord_e: the frame statements are not in the expected order")
    res = {}
    import re
    for n in ast.walk(fn):
        if isinstance(n, ast.If):
            t = ast.unparse(n.test)
            for famname in ("TRI", "QUAD"):
                if t == "'%s' in self.elemType" % famname:
                    b = [ast.unparse(x) for x in n.body]
                    m = re.match(r"^points3 = coord\[connect\[:, (\d+)\]\]$", b[0]) if len(b) == 1 else None
                    if not m:
                        raise TranslateError("_Get_sysCoord_e: third frame node of %s: %s" % (famname, b))
                    res[famname] = (0, 1, int(m.group(1)))
    if set(res) != {"TRI", "QUAD"}:
        raise TranslateError("_Get_sysCoord_e: TRI / QUAD branches not found")
    return res


# --------------------------------------------------------------------------------------
def _nl(l):
    return "[" + "; ".join(str(i) for i in l) + "]"


def _nll(ll):
    return "[" + "; ".join(_nl(l) for l in ll) + "]"


def emit_coq(faces, eval_form, pointin=("last1", "tables"), frame=None):
    from . import pyexpr
    L = ["(* GENERATED from EasyFEA/FEM/Elems/*.py (index tables) and _GroupElem._Get_Mapping.Eval by translator/faces.py — do not edit *)",
         "From Coq Require Import QArith List String.",
         "From EFP Require Import C08_defs.",
         "Import ListNotations.",
         "Open Scope string_scope.",
         "Open Scope nat_scope."]
    names = []
    for name, r in faces.items():
        L.append("Definition ft_%s : ftab := {| fname := \"%s\"; fparent := \"%s\"; fdim := %d; forder := %d; fnPe := %d; fnvert := %d;\n"
                 "  fsurfaces := %s;\n  ffaces := %s;\n  fsegments := %s;\n  ftriangles := %s;\n  forigin := [%s] |}." % (
                     name, name, r["parent"], r["dim"], r["order"], r["nPe"], r["nvertex"],
                     _nll(r["surfaces"]), _nll(r["faces"]), _nll(r["segments"]), _nl(r["triangles"]),
                     "; ".join(pyexpr.qlit(x) for x in r["origin"])))
        names.append("ft_" + name)
    L.append("Definition all_ftabs : list ftab := [%s]." % "; ".join(names))
    L.append("(* cost function of the iterative inverse map as found in the source *)")
    L.append("Definition eval_form : eval_kind := %s." % {"tangent": "EvalTangent", "iso": "EvalIso"}[eval_form])
    L.append("(* treatment of padded rows / normal orientation in Get_pointsInElem (dim 3) as found *)")
    L.append("Definition pie_trim : trim_kind := %s." % {"last1": "TrimLast1", "closing": "TrimClosing"}[pointin[0]])
    L.append("Definition pie_orient : orient_kind := %s." % {"tables": "OrientTables", "centroid": "OrientCentroid"}[pointin[1]])
    frame = frame or {"TRI": (0, 1, 2), "QUAD": (0, 1, 3)}
    L.append("(* nodes the element frame of _Get_sysCoord_e is built from (surface elements) *)")
    L.append("Definition frame_tri : nat * nat * nat := (%d, %d, %d)." % tuple(frame["TRI"]))
    L.append("Definition frame_quad : nat * nat * nat := (%d, %d, %d)." % tuple(frame["QUAD"]))
    return "\n".join(L) + "\n"
