"""C08 — translate the index tables of the element classes (`surfaces`, `faces`, `segments`,
`triangles`, `origin` properties in EasyFEA/FEM/Elems/_{seg,tri,quad,tetra,hexa,prism}.py) and
the cost function `Eval` nested in `_GroupElem._Get_Mapping` into python data / Coq text.

Pure `ast` (EasyFEA is not imported), fail-closed: a property body that is not
  [docstring]  return <form>
with <form> one of
  np.array(<nested list literal of ints>[, dtype=...])      literal table
  [<ints>]                                                   literal list
  np.arange(self.nPe, dtype=int)                             0..nPe-1 (the element is its own face)
  np.empty(0, dtype=int)                                     no faces (1-D)
  self.<other table property>                                alias
  super().<same property>                                    inherited from _GroupElem
raises TranslateError.  Inherited tables follow the base class: `origin` -> [0] (broadcast to
dim zeros), `triangles` -> none, `segments` -> the base-class algorithm for dim 1/2 (transcribed
below; the correspondence run compares every translated table with the property of the live
class, so a change of the base algorithm is seen)."""
import ast
import os
from fractions import Fraction

from .pyexpr import TranslateError
from . import elems as T_elems

PROPS = ["surfaces", "faces", "segments", "triangles", "origin"]
PARENT = {"SEG": "SEG2", "TRI": "TRI3", "QUAD": "QUAD4", "TETRA": "TETRA4", "HEXA": "HEXA8", "PRISM": "PRISM6"}


def read_gmsh_full(repo):
    """name -> (nPe, dim, order, Nvertex) from DICT_GMSH_DATA."""
    path = os.path.join(repo, "EasyFEA/FEM/_group_elem.py")
    tree = ast.parse(open(path).read())
    for c in tree.body:
        if isinstance(c, ast.ClassDef) and c.name == "GroupElemFactory":
            for st in c.body:
                tgt = None
                if isinstance(st, ast.AnnAssign) and isinstance(st.target, ast.Name):
                    tgt, val = st.target.id, st.value
                elif isinstance(st, ast.Assign) and isinstance(st.targets[0], ast.Name):
                    tgt, val = st.targets[0].id, st.value
                if tgt == "DICT_GMSH_DATA":
                    if not isinstance(val, ast.Dict):
                        raise TranslateError("DICT_GMSH_DATA is not a dict literal")
                    res = {}
                    for v in val.values:
                        if not (isinstance(v, ast.Tuple) and len(v.elts) >= 5 and isinstance(v.elts[0], ast.Attribute)):
                            raise TranslateError("DICT_GMSH_DATA entry")
                        res[v.elts[0].attr] = tuple(ast.literal_eval(e) for e in v.elts[1:5])
                    return res
    raise TranslateError("DICT_GMSH_DATA not found")


def _int_table(node, where):
    try:
        v = ast.literal_eval(node)
    except Exception:
        raise TranslateError("%s: not a literal table: %s" % (where, ast.unparse(node)[:60]))

    def ok(x):
        if isinstance(x, bool):
            return False
        if isinstance(x, int):
            return True
        return isinstance(x, list) and all(ok(y) for y in x)
    if not (isinstance(v, list) and ok(v)):
        raise TranslateError("%s: table entries must be (nested lists of) ints" % where)
    return v


def _is_self_attr(n, attr=None):
    return (isinstance(n, ast.Attribute) and isinstance(n.value, ast.Name) and n.value.id == "self"
            and (attr is None or n.attr == attr))


def _prop_form(fn, where):
    body = [st for st in fn.body
            if not (isinstance(st, ast.Expr) and isinstance(st.value, ast.Constant) and isinstance(st.value.value, str))]
    if len(body) != 1 or not isinstance(body[0], ast.Return) or body[0].value is None:
        raise TranslateError("%s: body is not a single return" % where)
    v = body[0].value
    if isinstance(v, ast.List):
        return ("lit", _int_table(v, where))
    if _is_self_attr(v):
        if v.attr not in PROPS:
            raise TranslateError("%s: alias of self.%s" % (where, v.attr))
        return ("alias", v.attr)
    if (isinstance(v, ast.Attribute) and isinstance(v.value, ast.Call) and isinstance(v.value.func, ast.Name)
            and v.value.func.id == "super" and not v.value.args):
        if v.attr != fn.name:
            raise TranslateError("%s: returns super().%s" % (where, v.attr))
        return ("super",)
    if isinstance(v, ast.Call) and isinstance(v.func, ast.Attribute) and isinstance(v.func.value, ast.Name) and v.func.value.id == "np":
        kw = {k.arg: k.value for k in v.keywords}
        if set(kw) - {"dtype"}:
            raise TranslateError("%s: keyword %s" % (where, sorted(kw)))
        if "dtype" in kw and not (isinstance(kw["dtype"], ast.Name) and kw["dtype"].id in ("int", "object")):
            raise TranslateError("%s: dtype %s" % (where, ast.unparse(kw["dtype"])))
        if v.func.attr == "array" and len(v.args) == 1:
            return ("lit", _int_table(v.args[0], where))
        if v.func.attr == "arange" and len(v.args) == 1 and _is_self_attr(v.args[0], "nPe"):
            return ("arange_nPe",)
        if v.func.attr == "empty" and len(v.args) == 1 and isinstance(v.args[0], ast.Constant) and v.args[0].value == 0:
            return ("lit", [])
    raise TranslateError("%s: unsupported form %s" % (where, ast.unparse(v)[:70]))


def base_segments(dim, order, nvertex):
    """_GroupElem.segments (base class), dim 1 and 2."""
    n = 2 + order - 1
    if dim == 1:
        seg = [[0] * n]
        seg[0][0], seg[0][-1] = 0, 1
        if n > 2:
            m = 1
            seg[0][1:n - 1] = list(range(m + 1, m + 1 + order - 1))
        return seg
    if dim == 2:
        seg = [[0] * n for _ in range(nvertex)]
        for i in range(nvertex):
            seg[i][0] = i
            seg[i][-1] = (i + 1) % nvertex
        if n > 2:
            for i in range(nvertex):
                m = max(max(r) for r in seg)
                seg[i][1:n - 1] = list(range(m + 1, m + 1 + order - 1))
        return seg
    return None  # base class raises for 3-D


def read_faces(repo):
    """-> dict name -> {dim, order, nPe, nvertex, parent, surfaces, faces, segments, triangles,
    origin (list of Fractions of length dim), lines}"""
    data = read_gmsh_full(repo)
    out = {}
    for f in T_elems.FILES:
        path = os.path.join(repo, "EasyFEA/FEM/Elems", f + ".py")
        tree = ast.parse(open(path).read())
        for c in tree.body:
            if not isinstance(c, ast.ClassDef):
                continue
            if c.name not in data:
                raise TranslateError("class %s not in DICT_GMSH_DATA" % c.name)
            nPe, dim, order, nvert = data[c.name]
            meths = {m.name: m for m in c.body if isinstance(m, ast.FunctionDef)}
            forms = {}
            lines = {}
            for p in PROPS:
                if p in meths:
                    forms[p] = _prop_form(meths[p], "%s.%s" % (c.name, p))
                    lines[p] = meths[p].lineno
                else:
                    forms[p] = ("super",)
                    lines[p] = c.lineno

            def resolve(p, depth=0):
                fm = forms[p]
                if fm[0] == "lit":
                    return fm[1]
                if fm[0] == "alias":
                    if depth > 3:
                        raise TranslateError("%s: alias cycle" % c.name)
                    return resolve(fm[1], depth + 1)
                if fm[0] == "arange_nPe":
                    return list(range(nPe))
                # inherited
                if p == "origin":
                    return [0]
                if p == "triangles":
                    return []
                if p == "segments":
                    s = base_segments(dim, order, nvert)
                    if s is None:
                        raise TranslateError("%s.segments: 3-D elements must define it (base class raises)" % c.name)
                    return s
                raise TranslateError("%s.%s is abstract" % (c.name, p))
            rec = {"dim": dim, "order": order, "nPe": nPe, "nvertex": nvert, "file": f + ".py", "lines": lines}
            for p in PROPS:
                rec[p] = resolve(p)
            # shape checks
            for p in ("surfaces", "segments"):
                if not all(isinstance(r, list) for r in rec[p]):
                    raise TranslateError("%s.%s: expected a 2-D table" % (c.name, p))
            fc = rec["faces"]
            if fc and not isinstance(fc[0], list):
                fc = [fc]            # 2-D: the element itself
            rec["faces"] = fc
            if not all(isinstance(t, int) for t in rec["triangles"]) or len(rec["triangles"]) % 3:
                raise TranslateError("%s.triangles: flat list of 3k ints expected" % c.name)
            org = rec["origin"]
            if not all(isinstance(t, int) for t in org) or len(org) not in (1, dim):
                raise TranslateError("%s.origin: %r" % (c.name, org))
            rec["origin"] = [Fraction(x) for x in (org * dim if len(org) == 1 else org)]
            for p in ("surfaces", "faces", "segments"):
                for r in rec[p]:
                    if any((not isinstance(i, int)) or i < 0 or i >= nPe for i in r):
                        raise TranslateError("%s.%s: index out of range" % (c.name, p))
            if any(i < 0 or i >= nPe for i in rec["triangles"]):
                raise TranslateError("%s.triangles: index out of range" % c.name)
            fam = [k for k in PARENT if c.name.startswith(k)]
            if len(fam) != 1:
                raise TranslateError("%s: unknown family" % c.name)
            rec["parent"] = PARENT[fam[0]]
            out[c.name] = rec
    missing = [n for n in data if n != "POINT" and n not in out]
    if missing:
        raise TranslateError("element types without class: %s" % missing)
    return out


# --------------------------------------------------------------------------------------
# the cost function of the iterative inverse map
# --------------------------------------------------------------------------------------
def _find_func(tree, path):
    cur = tree.body
    node = None
    for name in path:
        node = None
        for st in cur:
            if isinstance(st, (ast.ClassDef, ast.FunctionDef)) and st.name == name:
                node = st
                break
        if node is None:
            return None
        cur = node.body
    return node


def read_eval_form(repo):
    """Symbolically reads `Eval(xi, xP)` nested in _GroupElem._Get_Mapping.
    Returns ('tangent' | 'iso', lineno).
       tangent :  J = x0 + (xi - xiOrigin) @ (dN(xi) @ X) - xP      (code as found)
       iso     :  J = N(xi) @ X - xP                                (isoparametric map)
    Anything else -> TranslateError (unknown cost function: the theorems do not apply)."""
    path = os.path.join(repo, "EasyFEA/FEM/_group_elem.py")
    tree = ast.parse(open(path).read())
    gm = _find_func(tree, ["_GroupElem", "_Get_Mapping"])
    if gm is None:
        raise TranslateError("_GroupElem._Get_Mapping not found")
    evals = [n for n in ast.walk(gm) if isinstance(n, ast.FunctionDef) and n.name == "Eval"]
    if len(evals) != 1:
        raise TranslateError("_Get_Mapping: expected exactly one nested Eval, found %d" % len(evals))
    ev = evals[0]
    if [a.arg for a in ev.args.args] != ["xi", "xP"]:
        raise TranslateError("Eval signature %s" % [a.arg for a in ev.args.args])
    # outer bindings of the tables and of the geometric data
    outer = {}
    for n in ast.walk(gm):
        if isinstance(n, ast.Assign) and len(n.targets) == 1 and isinstance(n.targets[0], ast.Name):
            outer.setdefault(n.targets[0].id, []).append(ast.unparse(n.value))

    def outer_is(name, *texts):
        return name in outer and all(t in texts for t in outer[name])
    env = {"xi": "xi", "xP": "xP"}

    def sym(n):
        if isinstance(n, ast.Name):
            if n.id in env:
                return env[n.id]
            if n.id == "x0" and outer_is("x0", "coordElemBase[0, :dim]"):
                return "x0"
            if n.id == "xiOrigin" and outer_is("xiOrigin", "self.origin"):
                return "xi0"
            raise TranslateError("Eval: unbound or rebound name %s" % n.id)
        if isinstance(n, ast.BinOp):
            op = {ast.Add: "+", ast.Sub: "-", ast.MatMult: "@"}.get(type(n.op))
            if op is None:
                raise TranslateError("Eval: operator %s" % type(n.op).__name__)
            return (op, sym(n.left), sym(n.right))
        if isinstance(n, ast.Call):
            t = ast.unparse(n)
            for tab, meth in (("dN_tild", "self._dN()"), ("N_tild", "self._N()")):
                if t in ("_GroupElem._Eval_Functions(%s, xi.reshape(1, -1))" % tab,
                         "self._Eval_Functions(%s, xi.reshape(1, -1))" % tab):
                    if not outer_is(tab, meth):
                        raise TranslateError("Eval: %s is not %s" % (tab, meth))
                    return ("tab", tab)
            raise TranslateError("Eval: call %s" % t[:70])
        if isinstance(n, ast.Subscript):
            t = ast.unparse(n)
            if t == "coordElemBase[:, :dim]":
                if not outer_is("coordElemBase", "coordElem.copy()", "coordElemBase @ sysCoord_e[e]"):
                    raise TranslateError("Eval: coordElemBase is rebound")
                return "X"
            base = sym(n.value)
            idx = ast.unparse(n.slice)
            if isinstance(base, tuple) and base[0] == "tab" and idx == "0":
                return ("row0", base[1])                  # (nF, nPe) block of the single point
            if isinstance(base, tuple) and base[0] == "tab" and idx in ("(0, 0)", "0, 0"):
                return ("row00", base[1])
            if isinstance(base, tuple) and base[0] == "row0" and idx == "0":
                return ("row00", base[1])
            raise TranslateError("Eval: subscript %s" % t[:70])
        raise TranslateError("Eval: expression %s" % ast.unparse(n)[:70])
    result = None
    for st in ev.body:
        if isinstance(st, ast.Expr) and isinstance(st.value, ast.Constant) and isinstance(st.value.value, str):
            continue
        if isinstance(st, ast.Assign) and len(st.targets) == 1 and isinstance(st.targets[0], ast.Name):
            env[st.targets[0].id] = sym(st.value)
        elif isinstance(st, ast.Return):
            result = sym(st.value)
            break
        else:
            raise TranslateError("Eval: statement %s" % type(st).__name__)
    if result is None:
        raise TranslateError("Eval: no return")
    tangent = ("-", ("+", "x0", ("@", ("-", "xi", "xi0"), ("@", ("row0", "dN_tild"), "X"))), "xP")
    iso = ("-", ("@", ("row00", "N_tild"), "X"), "xP")
    if result == tangent:
        return "tangent", ev.lineno
    if result == iso:
        return "iso", ev.lineno
    raise TranslateError("Eval: unknown cost function %r" % (result,))


def read_affine_branch(repo):
    """Checks that the non-iterative branch is  xiP = xiOrigin + (xP_n - x0) @ invF_e_pg[e, 0]
    (possibly with np.asarray around the FeArray).  Returns lineno."""
    path = os.path.join(repo, "EasyFEA/FEM/_group_elem.py")
    tree = ast.parse(open(path).read())
    gm = _find_func(tree, ["_GroupElem", "_Get_Mapping"])
    if gm is None:
        raise TranslateError("_GroupElem._Get_Mapping not found")
    ok = ("xiOrigin + (xP_n - x0) @ invF_e_pg[e, 0]", "xiOrigin + (xP_n - x0) @ np.asarray(invF_e_pg)[e, 0]",
          "xiOrigin + (xP_n - x0) @ np.asarray(invF_e_pg[e, 0])")
    for n in ast.walk(gm):
        if isinstance(n, ast.If) and ast.unparse(n.test) == "not useIterative_e[e]":
            for st in n.body:
                if isinstance(st, ast.Assign) and ast.unparse(st.targets[0]) == "xiP":
                    if ast.unparse(st.value) in ok:
                        return st.lineno
                    raise TranslateError("_Get_Mapping affine branch: xiP = %s" % ast.unparse(st.value)[:80])
    raise TranslateError("_Get_Mapping: affine branch not found")


def read_pointin_form(repo):
    """Reads the dim == 3 branch of _GroupElem.Get_pointsInElem (statement-level, fail-closed).
    Returns (trim, orient, lineno):
      trim   'last1'   : PRISM rows 3, 4 lose their last entry (`surfaces[3, :-1]`), code as found
             'closing' : trailing repetitions of the first node are removed from every row
      orient 'tables'  : the half-space normal is cross(p1 - p0, p2 - p0) as the tables give it
             'centroid': that normal is flipped when the element centroid lies on its positive side"""
    path = os.path.join(repo, "EasyFEA/FEM/_group_elem.py")
    tree = ast.parse(open(path).read())
    fn = _find_func(tree, ["_GroupElem", "Get_pointsInElem"])
    if fn is None:
        raise TranslateError("_GroupElem.Get_pointsInElem not found")
    br = None
    for n in ast.walk(fn):
        if isinstance(n, ast.If) and ast.unparse(n.test) == "dim == 3":
            br = n
    if br is None:
        raise TranslateError("Get_pointsInElem: no `dim == 3` branch")
    stmts = [ast.unparse(st) for st in br.body]
    src = "\n".join(stmts)
    need = ["p0_f = [surface[0] for surface in surfaces]", "p1_f = [surface[1] for surface in surfaces]",
            "p2_f = [surface[-1] for surface in surfaces]", "i_f = Normalize(coord[p1_f] - coord[p0_f])",
            "j_f = Normalize(coord[p2_f] - coord[p0_f])", "n_f = Normalize(np.cross(i_f, j_f, 1, 1))",
            "v_f = coordinates_n_i - coord[p0_f]", "t_f = np.einsum('nfi,fi->nf', v_f, n_f, optimize='optimal') <= tol",
            "filtre = np.sum(t_f, 1)", "idx = np.where(filtre == Nface)[0]", "coord = self.coord[connect[elem]]"]
    for t in need:
        if t not in stmts:
            raise TranslateError("Get_pointsInElem (dim 3): statement `%s` not found" % t)
    if "surfaces[3, :-1]" in src and "surfaces[4, :-1]" in src and "startswith('PRISM')" in src and "while" not in src:
        trim = "last1"
    elif "while surface[-1] == surface[0]:\n        surface.pop()" in src and "surfaces = [list(surface) for surface in self.surfaces]" in src:
        trim = "closing"
    else:
        raise TranslateError("Get_pointsInElem (dim 3): unknown treatment of the padded prism rows")
    flip = [t for t in stmts if "n_f[" in t or "n_f *=" in t or "n_f = -" in t]
    if not flip:
        orient = "tables"
    elif flip == ["n_f[inward_f] *= -1"] and "inward_f = np.einsum('fi,fi->f', coord.mean(0) - coord[p0_f], n_f) > 0" in stmts:
        orient = "centroid"
    else:
        raise TranslateError("Get_pointsInElem (dim 3): unknown normal re-orientation %s" % flip)
    return trim, orient, br.lineno


# --------------------------------------------------------------------------------------
def _nl(l):
    return "[" + "; ".join(str(i) for i in l) + "]"


def _nll(ll):
    return "[" + "; ".join(_nl(l) for l in ll) + "]"


def emit_coq(faces, eval_form, pointin=("last1", "tables")):
    from . import pyexpr
    L = ["(* GENERATED from EasyFEA/FEM/Elems/*.py (index tables) and _GroupElem._Get_Mapping.Eval by translator/faces.py — do not edit *)",
         "From Coq Require Import QArith List String.",
         "From EFP Require Import C08_defs.",
         "Import ListNotations.",
         "Open Scope string_scope.",
         "Open Scope nat_scope."]
    names = []
    for name, r in faces.items():
        L.append("Definition ft_%s : ftab := {| fname := \"%s\"; fparent := \"%s\"; fdim := %d; forder := %d; fnPe := %d; fnvert := %d;\n"
                 "  fsurfaces := %s;\n  ffaces := %s;\n  fsegments := %s;\n  ftriangles := %s;\n  forigin := [%s] |}." % (
                     name, name, r["parent"], r["dim"], r["order"], r["nPe"], r["nvertex"],
                     _nll(r["surfaces"]), _nll(r["faces"]), _nll(r["segments"]), _nl(r["triangles"]),
                     "; ".join(pyexpr.qlit(x) for x in r["origin"])))
        names.append("ft_" + name)
    L.append("Definition all_ftabs : list ftab := [%s]." % "; ".join(names))
    L.append("(* cost function of the iterative inverse map as found in the source *)")
    L.append("Definition eval_form : eval_kind := %s." % {"tangent": "EvalTangent", "iso": "EvalIso"}[eval_form])
    L.append("(* treatment of padded rows / normal orientation in Get_pointsInElem (dim 3) as found *)")
    L.append("Definition pie_trim : trim_kind := %s." % {"last1": "TrimLast1", "closing": "TrimClosing"}[pointin[0]])
    L.append("Definition pie_orient : orient_kind := %s." % {"tables": "OrientTables", "centroid": "OrientCentroid"}[pointin[1]])
    return "\n".join(L) + "\n"
