"""C05 -- fail-closed translation of EasyFEA's time-integration schemes to typed expression trees.

Source: EasyFEA/Simulations/_simu.py (class _Simu) and EasyFEA/Simulations/Solvers.py (AlgoType).

The translator does NOT pattern-match text.  It is a tiny abstract interpreter for the
straight-line / if-elif Python used by the anchored methods: for every AlgoType member it

  1. runs the *setter*  (Solver_Set_Hyperbolic_Algorithm / Solver_Set_Parabolic_Algorithm) on
     symbolic scalars dt, beta, gamma, alpha  -> stored parameter tuple + asserted ranges,
  2. runs  _Solver_Evaluate_u_v_a_for_time_scheme, _Solver_Get_K_C_M_coefs_for_time_scheme,
     _Solver_Apply_Neumann and _Solver_Update_solutions with `self.algo` bound to that member,
     evaluating every `if` on the concrete algorithm (==, in, is, is not, and/or/not) and every
     arithmetic statement on typed symbolic values
        scalar S | vector V | operator O      (u_n v_n a_n x bN F : V;  K C M : O;  rest : S)
     `@` is application of an operator to a vector.  Local names, statement order, temporaries,
     tuple unpacking, `x[0]` of the parameter tuple, `+=`/`-=` accumulations are all handled by
     interpretation, so harmless refactorings give the same (or an algebraically equal) tree.

Anything outside the accepted grammar that could influence a tracked value raises
TranslateError (opaque values may be bound to names but not used in arithmetic).

Trees: (op, type, *args)
   ('c',S,Fraction) ('v',T,name) ('+',T,a,b) ('-',T,a,b) ('neg',T,a) ('*',S,a,b) ('/',S,a,b)
   ('pow',S,a,n) ('smul',T,s,x) ('sdiv',T,x,s) ('app',V,O,v)
Props: ('cmp', op, a, b) | ('and', p, q) | ('true',)
"""
import ast
import os
from fractions import Fraction

S, V, O = "S", "V", "O"

VEC_ATOMS = ["u_n", "v_n", "a_n", "x", "bN", "F"]
OP_ATOMS = ["K", "C", "M"]
SCAL_ATOMS = ["dt", "beta", "gamma", "alpha"]

SIMU = os.path.join("EasyFEA", "Simulations", "_simu.py")
SOLVERS = os.path.join("EasyFEA", "Simulations", "Solvers.py")


class TranslateError(Exception):
    pass


# ----------------------------------------------------------------------------------------
# values of the abstract interpreter
# ----------------------------------------------------------------------------------------
class Sym:
    __slots__ = ("t", "e")

    def __init__(self, t, e):
        self.t, self.e = t, e


class Enum:
    __slots__ = ("name",)

    def __init__(self, name):
        self.name = name

    def __eq__(self, o):
        return isinstance(o, Enum) and o.name == self.name

    def __hash__(self):
        return hash(self.name)


class Opaque:
    """A value the interpreter does not track.  Binding it is fine; using it in a tracked
    computation is a translation failure."""
    __slots__ = ("why",)

    def __init__(self, why):
        self.why = why


class Marker:
    __slots__ = ("kind",)

    def __init__(self, kind):
        self.kind = kind


class Closure:
    """a nested `def` or a lambda, with the (live) environment it was defined in"""
    __slots__ = ("fn", "env")

    def __init__(self, fn, env):
        self.fn, self.env = fn, env


class PropV:
    __slots__ = ("p",)

    def __init__(self, p):
        self.p = p


def atom(name):
    t = V if name in VEC_ATOMS else O if name in OP_ATOMS else S
    return Sym(t, ('v', t, name))


def const(fr):
    return Sym(S, ('c', S, Fraction(fr)))


class _Return(Exception):
    def __init__(self, value):
        self.value = value


# ----------------------------------------------------------------------------------------
class Interp:
    """Interprets methods of class _Simu for one concrete algorithm."""

    INLINE_METHODS = {"__Solver_Get_Hyperbolic_Params", "__Solver_Get_Parabolic_Params",
                      "_Solver_Get_K_C_M_coefs_for_time_scheme"}
    INLINE_PROPS = {"algo", "isNonLinear"}
    GETTERS = {"_Get_u_n": "u_n", "_Get_v_n": "v_n", "_Get_a_n": "a_n"}

    def __init__(self, methods, algotypes, type_lists, algo, nonlinear=False):
        self.methods = methods            # name -> ast.FunctionDef
        self.algotypes = algotypes        # list of member names
        self.type_lists = type_lists      # staticmethod name -> list of member names
        self.state = {"__isNonLinear": bool(nonlinear)}   # self.<attr> -> value
        self.asserts = []                 # Prop trees asserted on symbolic scalars
        self.depth = 0
        self.pending = []         # (caller variable, value after in-place update inside an inlined helper, helper)
        self.last_mutated = {}
        self.where = "?"
        self.algo = algo

    # ---- errors -------------------------------------------------------------------
    def err(self, node, msg):
        line = getattr(node, "lineno", "?")
        raise TranslateError("%s:%s [%s, algo=%s]: %s" % (SIMU, line, self.where, self.algo, msg))

    # ---- calling ------------------------------------------------------------------
    def call(self, fname, args):
        """args: dict param name -> value (self is implicit)."""
        fn = self.methods.get(fname)
        if fn is None:
            raise TranslateError("%s: method %s not found in class _Simu" % (SIMU, fname))
        return self.invoke(fn, [], args, fname)

    PARAMS, MUTATED = "<params>", "<mutated>"

    def invoke(self, fn, pos, kw, label, outer_env=None, method=True):
        """Interpret a FunctionDef / Lambda.  pos: positional values (self excluded), kw: name -> value.
        Returns (value).  Records in self.last_mutated the parameters updated in place (`p += ...`)."""
        a = fn.args
        if a.vararg or a.kwarg or a.posonlyargs or a.kwonlyargs:
            self.err(fn, "unsupported signature of %s" % label)
        names = [x.arg for x in a.args]
        env = dict(outer_env) if outer_env is not None else {}
        if method:
            decos = [d.id if isinstance(d, ast.Name) else getattr(d, "attr", "?") for d in getattr(fn, "decorator_list", [])]
            if any(d not in ("staticmethod", "classmethod", "property", "abstractmethod") for d in decos):
                self.err(fn, "decorated method %s (%s)" % (label, decos))
            if "staticmethod" in decos:
                pass
            elif "classmethod" in decos:
                if not names:
                    self.err(fn, "%s: classmethod without cls" % label)
                env[names[0]] = Marker("class")
                names = names[1:]
            else:
                if not names or names[0] != "self":
                    self.err(fn, "%s is not an instance method" % label)
                env["self"] = Marker("self")
                names = names[1:]
        if len(pos) > len(names):
            self.err(fn, "%s called with too many arguments" % label)
        given = dict(zip(names, pos))
        for k, v in kw.items():
            if k not in names:
                self.err(fn, "%s has no parameter %s (signature changed)" % (label, k))
            if k in given:
                self.err(fn, "%s: parameter %s given twice" % (label, k))
            given[k] = v
        defaults = dict(zip(names[len(names) - len(a.defaults):], a.defaults)) if a.defaults else {}
        for n in names:
            if n in given:
                env[n] = given[n]
            elif n in defaults:
                env[n] = self.eval(defaults[n], env)
            else:
                env[n] = Opaque("argument " + n)
        env[self.PARAMS] = set(n for n in names if n in given)
        env[self.MUTATED] = {}
        saved = self.where
        self.where = label
        self.depth += 1
        try:
            if self.depth > 8:
                self.err(fn, "call depth")
            if isinstance(fn, ast.Lambda):
                res = self.eval(fn.body, env)
            else:
                try:
                    self.block(fn.body, env)
                    res = None
                except _Return as r:
                    res = r.value
        finally:
            self.depth -= 1
            self.where = saved
        self.last_mutated = env[self.MUTATED]
        return res

    def inline(self, n, fn, label, env, outer_env=None, method=True):
        """Inline a call `n` (ast.Call) of a helper whose body is available.  If the body cannot be interpreted the
        result is an untracked value (using it in a tracked computation fails then) and self's state is rolled back.
        A parameter updated in place inside the helper (`b += ...`) must be handed back to the caller's variable by the
        enclosing assignment (`b = helper(b, ...)`): numpy updates the caller's array, scipy.sparse does not, so only
        then do both readings agree."""
        pos = [self.eval(x, env) for x in n.args]
        if any(isinstance(x, ast.Starred) for x in n.args) or any(k.arg is None for k in n.keywords):
            self.err(n, "star-arguments in a call of %s" % label)
        kw = {k.arg: self.eval(k.value, env) for k in n.keywords}
        st_state, st_asserts, st_pending = dict(self.state), list(self.asserts), list(self.pending)
        try:
            res = self.invoke(fn, pos, kw, label, outer_env, method)
        except TranslateError as ex:
            self.state, self.asserts, self.pending = st_state, st_asserts, st_pending
            return Opaque("%s(...) not interpretable: %s" % (label, str(ex)[-100:]))
        names = [x.arg for x in fn.args.args]
        if method and names and names[0] in ("self", "cls") and not any(
                (isinstance(d, ast.Name) and d.id == "staticmethod") for d in getattr(fn, "decorator_list", [])):
            names = names[1:]
        argnode = dict(zip(names, n.args))
        argnode.update({k.arg: k.value for k in n.keywords})
        for pname, val in self.last_mutated.items():
            node = argnode.get(pname)
            if isinstance(node, ast.Name):
                self.pending.append((node.id, val, label))
        return res

    # ---- statements ---------------------------------------------------------------
    def block(self, stmts, env):
        for st in stmts:
            self.stmt(st, env)

    def no_pending(self, st):
        if self.pending:
            var, _, label = self.pending[0]
            self.pending = []
            self.err(st, "%s updates its argument `%s` in place and the caller does not take the result back into `%s`" % (label, var, var))

    def stmt(self, st, env):
        if not isinstance(st, (ast.If, ast.For)):
            self.pending = []
        if isinstance(st, ast.FunctionDef):
            if st.decorator_list:
                self.err(st, "decorated local function")
            env[st.name] = Closure(st, env)
            env.get(self.PARAMS, set()).discard(st.name)
            return
        if isinstance(st, ast.For):
            if st.orelse:
                self.err(st, "for-else")
            self.pending = []
            it = self.eval(st.iter, env)
            self.no_pending(st)
            if not isinstance(it, (tuple, list)):
                self.err(st, "loop over something that is not a literal tuple/list: %s" % ast.unparse(st.iter)[:60])
            for v in it:
                self.assign(st.target, v, env)
                self.block(st.body, env)
            return
        if isinstance(st, ast.Expr):
            v = st.value
            if isinstance(v, ast.Constant) and isinstance(v.value, str):
                return
            if isinstance(v, ast.Call) and isinstance(v.func, ast.Attribute) and isinstance(v.func.value, ast.Name):
                base = env.get(v.func.value.id)
                if isinstance(base, Marker) and base.kind == "tic":
                    return  # timing only
            self.err(st, "expression statement with possible side effect: %s" % ast.unparse(st)[:80])
        if isinstance(st, ast.Pass):
            return
        if isinstance(st, ast.Return):
            val = None if st.value is None else self.eval(st.value, env)
            self.no_pending(st)
            raise _Return(val)
        if isinstance(st, ast.Raise):
            self.err(st, "this algorithm reaches `raise` (%s)" % ast.unparse(st)[:60])
        if isinstance(st, ast.Assert):
            self.do_assert(st, env)
            return
        if isinstance(st, ast.If):
            self.pending = []
            c = self.eval(st.test, env)
            self.no_pending(st)
            if not isinstance(c, bool):
                self.err(st, "condition is not decidable from the algorithm: %s" % ast.unparse(st.test)[:80])
            self.block(st.body if c else st.orelse, env)
            return
        if isinstance(st, ast.Assign):
            try:
                val = self.eval(st.value, env)
            except TranslateError as ex:
                # deferred: the names become untracked; using them in a tracked computation fails then
                if all(isinstance(tg, ast.Name) for tg in st.targets):
                    val = Opaque("unreadable right-hand side (%s)" % str(ex)[-120:])
                else:
                    raise
            for var, want, label in self.pending:
                ok = isinstance(val, Sym) and isinstance(want, Sym) and val.e == want.e and \
                    any(isinstance(tg, ast.Name) and tg.id == var for tg in st.targets)
                if not ok:
                    self.pending = []
                    self.err(st, "%s updates its argument `%s` in place; the caller must assign the returned value back to `%s`" % (label, var, var))
            self.pending = []
            for tg in st.targets:
                self.assign(tg, val, env)
            return
        if isinstance(st, ast.AnnAssign) and st.value is not None:
            val = self.eval(st.value, env)
            self.no_pending(st)
            self.assign(st.target, val, env)
            return
        if isinstance(st, ast.AugAssign):
            if not isinstance(st.target, ast.Name):
                self.err(st, "augmented assignment to a non-name")
            cur = env.get(st.target.id)
            if cur is None:
                self.err(st, "augmented assignment to unbound %s" % st.target.id)
            rhs = self.eval(st.value, env)
            self.no_pending(st)
            new = self.binop(st.op, cur, rhs, st)
            if st.target.id in env.get(self.PARAMS, ()) and isinstance(cur, Sym) and cur.t != S:
                # `param += ...` updates the caller's array in place (numpy) or not (scipy.sparse)
                if self.depth <= 1:
                    self.err(st, "in-place update of the argument `%s` of an anchored method" % st.target.id)
                env[self.MUTATED][st.target.id] = new
            env[st.target.id] = new
            return
        self.err(st, "unsupported statement %s" % type(st).__name__)

    def assign(self, tg, val, env):
        if isinstance(tg, ast.Name):
            env[tg.id] = val
            env.get(self.PARAMS, set()).discard(tg.id)
            return
        if isinstance(tg, (ast.Tuple, ast.List)):
            if not isinstance(val, tuple):
                if isinstance(val, Opaque):
                    for e in tg.elts:
                        self.assign(e, Opaque(val.why), env)
                    return
                self.err(tg, "unpacking a non-tuple")
            if len(val) != len(tg.elts):
                self.err(tg, "unpacking %d values into %d names" % (len(val), len(tg.elts)))
            for e, v in zip(tg.elts, val):
                self.assign(e, v, env)
            return
        if isinstance(tg, ast.Attribute) and isinstance(tg.value, ast.Name) and isinstance(env.get(tg.value.id), Marker) \
                and env[tg.value.id].kind == "self":
            self.state[tg.attr] = val
            return
        self.err(tg, "unsupported assignment target %s" % ast.unparse(tg)[:60])

    def do_assert(self, st, env):
        try:
            c = self.eval(st.test, env)
        except TranslateError:
            return   # an assert we cannot read does not change any value (it can only raise)
        if c is True:
            return
        if c is False:
            self.err(st, "assertion is false for this algorithm: %s" % ast.unparse(st.test)[:80])
        if isinstance(c, PropV):
            self.asserts.append(c.p)

    # ---- expressions --------------------------------------------------------------
    def eval(self, n, env):
        if isinstance(n, ast.Constant):
            v = n.value
            if v is None or isinstance(v, (bool, str)):
                return v
            if isinstance(v, int):
                return const(v)
            if isinstance(v, float):
                return const(Fraction(repr(v)))
            self.err(n, "constant %r" % (v,))
        if isinstance(n, ast.JoinedStr):
            return Opaque("f-string")
        if isinstance(n, ast.Name):
            if n.id in env:
                return env[n.id]
            if n.id == "AlgoType":
                return Marker("AlgoType")
            if n.id == "_Simu":
                return Marker("class")
            if n.id in ("np", "sparse", "sla", "Tic", "Terminal", "MPI_RANK", "ResolType"):
                return Marker("module:" + n.id)
            self.err(n, "unbound name %s" % n.id)
        if isinstance(n, ast.Tuple):
            return tuple(self.eval(e, env) for e in n.elts)
        if isinstance(n, ast.List):
            return list(self.eval(e, env) for e in n.elts)
        if isinstance(n, ast.Attribute):
            base = self.eval(n.value, env)
            if isinstance(base, Marker) and base.kind == "AlgoType":
                if n.attr in self.algotypes:
                    return Enum(n.attr)
                return Marker("AlgoType." + n.attr)
            if isinstance(base, Marker) and base.kind == "self":
                if n.attr in self.state:
                    return self.state[n.attr]
                if n.attr in self.INLINE_PROPS:
                    return self.call(n.attr, {})
                return Marker("self." + n.attr)
            return Opaque("attribute " + ast.unparse(n)[:40])
        if isinstance(n, ast.Subscript):
            base = self.eval(n.value, env)
            if isinstance(base, tuple):
                idx = n.slice
                if isinstance(idx, ast.Constant) and isinstance(idx.value, int) and not isinstance(idx.value, bool) \
                        and -len(base) <= idx.value < len(base):
                    return base[idx.value]
                self.err(n, "tuple index %s" % ast.unparse(n.slice))
            if isinstance(base, Sym):
                self.err(n, "indexing a tracked %s value: %s" % (base.t, ast.unparse(n)[:60]))
            return Opaque("subscript")
        if isinstance(n, ast.Call):
            return self.eval_call(n, env)
        if isinstance(n, ast.UnaryOp):
            a = self.eval(n.operand, env)
            if isinstance(n.op, ast.Not):
                if isinstance(a, bool):
                    return not a
                self.err(n, "`not` of a non-boolean")
            if isinstance(n.op, ast.USub):
                self.need_sym(a, n)
                return Sym(a.t, fold(('neg', a.t, a.e)))
            if isinstance(n.op, ast.UAdd):
                self.need_sym(a, n)
                return a
            self.err(n, "unary operator")
        if isinstance(n, ast.BoolOp):
            vals = [self.eval(v, env) for v in n.values]
            if all(isinstance(v, bool) for v in vals):
                return all(vals) if isinstance(n.op, ast.And) else any(vals)
            if isinstance(n.op, ast.And) and all(isinstance(v, (bool, PropV)) for v in vals):
                if any(v is False for v in vals):
                    return False
                ps = [v.p for v in vals if isinstance(v, PropV)]
                p = ps[0]
                for q in ps[1:]:
                    p = ('and', p, q)
                return PropV(p)
            self.err(n, "boolean operation on non-booleans: %s" % ast.unparse(n)[:80])
        if isinstance(n, ast.Compare):
            return self.eval_compare(n, env)
        if isinstance(n, ast.BinOp):
            return self.binop(n.op, self.eval(n.left, env), self.eval(n.right, env), n)
        if isinstance(n, ast.Lambda):
            return Closure(n, env)
        if isinstance(n, ast.IfExp):
            c = self.eval(n.test, env)
            if not isinstance(c, bool):
                self.err(n, "conditional expression not decidable")
            return self.eval(n.body if c else n.orelse, env)
        self.err(n, "unsupported expression %s: %s" % (type(n).__name__, ast.unparse(n)[:60]))

    def need_sym(self, a, n):
        if not isinstance(a, Sym):
            why = a.why if isinstance(a, Opaque) else type(a).__name__
            self.err(n, "untracked value (%s) used in arithmetic: %s" % (why, ast.unparse(n)[:80]))

    def eval_call(self, n, env):
        f = n.func
        if isinstance(f, ast.Attribute):
            base = self.eval(f.value, env)
            if isinstance(base, Marker) and base.kind == "self":
                if f.attr in self.GETTERS:
                    return atom(self.GETTERS[f.attr])
                if f.attr in self.INLINE_METHODS:
                    if n.args or n.keywords:
                        self.err(n, "%s called with arguments" % f.attr)
                    return self.call(f.attr, {})
                if f.attr == "Get_K_C_M_F":
                    return (atom("K"), atom("C"), atom("M"), atom("F"))
                if f.attr == "__Solver_Get_Dirichlet_A_x":
                    # resizes/marks known dofs (property C04); returns the matrix it is given (first of the pair)
                    fn = self.methods.get(f.attr)
                    names = [a.arg for a in fn.args.args][1:] if fn is not None else []
                    if "A" not in names or names.index("A") >= len(n.args):
                        self.err(n, "cannot locate the matrix argument of __Solver_Get_Dirichlet_A_x")
                    return (self.eval(n.args[names.index("A")], env), Opaque("x"))
                if f.attr == "Bc_values_Neumann":
                    return Marker("neumann_values")
                if f.attr == "Bc_dofs_Neumann":
                    return Marker("neumann_dofs")
                if f.attr in self.methods:
                    return self.inline(n, self.methods[f.attr], f.attr, env)
                return Opaque("self.%s(...)" % f.attr)
            if isinstance(base, Marker) and base.kind == "class":
                if f.attr in self.methods:
                    return self.inline(n, self.methods[f.attr], f.attr, env)
                return Opaque("_Simu.%s(...)" % f.attr)
            if isinstance(base, Marker) and base.kind == "AlgoType":
                if f.attr in self.type_lists:
                    return [Enum(x) for x in self.type_lists[f.attr]]
                self.err(n, "unknown AlgoType method %s" % f.attr)
            if isinstance(base, Marker) and base.kind == "module:sparse" and f.attr == "csr_matrix":
                # b = sparse.csr_matrix((dofsValues, (dofs, zeros)), shape=(Ndof, 1)): the Neumann vector
                if n.args and isinstance(n.args[0], ast.Tuple) and len(n.args[0].elts) == 2:
                    d = self.eval(n.args[0].elts[0], env)
                    ij = n.args[0].elts[1]
                    if isinstance(d, Marker) and d.kind == "neumann_values" and isinstance(ij, ast.Tuple) and len(ij.elts) == 2:
                        r = self.eval(ij.elts[0], env)
                        if isinstance(r, Marker) and r.kind == "neumann_dofs":
                            return atom("bN")
                return Opaque("sparse.csr_matrix(...)")
            if isinstance(base, Sym):
                if f.attr == "dot" and len(n.args) == 1 and not n.keywords:
                    return self.binop(ast.MatMult(), base, self.eval(n.args[0], env), n)
                if f.attr == "copy" and not n.args and not n.keywords:
                    return base
                self.err(n, "method call on a tracked value: %s" % ast.unparse(n)[:60])
            return Opaque("call " + ast.unparse(f)[:40])
        if isinstance(f, ast.Name):
            if isinstance(env.get(f.id), Closure):
                c = env[f.id]
                return self.inline(n, c.fn, f.id, env, outer_env=c.env, method=False)
            if f.id == "zip" and not n.keywords:
                cols = [self.eval(x, env) for x in n.args]
                if all(isinstance(c, (tuple, list)) for c in cols):
                    return [tuple(r) for r in zip(*cols)]
                return Opaque("zip")
            if f.id == "Tic":
                return Marker("tic")
            if f.id == "len":
                return Opaque("len")
            return Opaque("call " + f.id)
        return Opaque("call")

    def eval_compare(self, n, env):
        left = self.eval(n.left, env)
        res = None
        for op, rn in zip(n.ops, n.comparators):
            right = self.eval(rn, env)
            r = self.cmp1(op, left, right, n)
            if res is None:
                res = r
            elif isinstance(res, bool) and isinstance(r, bool):
                res = res and r
            elif isinstance(res, PropV) and isinstance(r, PropV):
                res = PropV(('and', res.p, r.p))
            else:
                self.err(n, "mixed comparison chain")
            left = right
        return res

    def cmp1(self, op, a, b, n):
        def enumlike(x):
            return isinstance(x, Enum) or (isinstance(x, Marker) and x.kind.startswith("AlgoType."))
        if isinstance(op, (ast.Eq, ast.Is, ast.NotEq, ast.IsNot)):
            if enumlike(a) and enumlike(b):
                same = (a == b) if isinstance(a, Enum) and isinstance(b, Enum) else \
                    (isinstance(a, Marker) and isinstance(b, Marker) and a.kind == b.kind)
                return same if isinstance(op, (ast.Eq, ast.Is)) else not same
            if a is None or b is None:
                same = a is None and b is None
                if isinstance(a, Opaque) or isinstance(b, Opaque):
                    self.err(n, "comparison with None of an untracked value")
                return same if isinstance(op, (ast.Eq, ast.Is)) else not same
        if isinstance(op, (ast.In, ast.NotIn)):
            if enumlike(a) and isinstance(b, (list, tuple)) and all(enumlike(x) for x in b):
                r = any(isinstance(x, Enum) and x == a for x in b) if isinstance(a, Enum) else False
                return r if isinstance(op, ast.In) else not r
        if isinstance(op, (ast.Lt, ast.LtE, ast.Gt, ast.GtE, ast.Eq, ast.NotEq)):
            if isinstance(a, Sym) and isinstance(b, Sym) and a.t == S and b.t == S:
                sym = {ast.Lt: "<", ast.LtE: "<=", ast.Gt: ">", ast.GtE: ">=", ast.Eq: "=", ast.NotEq: "<>"}[type(op)]
                return PropV(('cmp', sym, a.e, b.e))
        self.err(n, "comparison not understood: %s" % ast.unparse(n)[:80])

    def binop(self, op, a, b, n):
        self.need_sym(a, n)
        self.need_sym(b, n)
        if isinstance(op, (ast.Add, ast.Sub)):
            if a.t != b.t:
                # numpy would broadcast a scalar over a vector; none of the schemes does this
                self.err(n, "adding %s and %s: %s" % (a.t, b.t, ast.unparse(n)[:80]))
            return Sym(a.t, fold(('+' if isinstance(op, ast.Add) else '-', a.t, a.e, b.e)))
        if isinstance(op, ast.Mult):
            if a.t == S and b.t == S:
                return Sym(S, fold(('*', S, a.e, b.e)))
            if a.t == S:
                return Sym(b.t, ('smul', b.t, a.e, b.e))
            if b.t == S:
                return Sym(a.t, ('smul', a.t, b.e, a.e))
            self.err(n, "product of %s and %s (elementwise / matrix product is not in the grammar): %s" % (a.t, b.t, ast.unparse(n)[:80]))
        if isinstance(op, ast.Div):
            if b.t != S:
                self.err(n, "division by a non-scalar: %s" % ast.unparse(n)[:80])
            if a.t == S:
                return Sym(S, fold(('/', S, a.e, b.e)))
            return Sym(a.t, ('sdiv', a.t, a.e, b.e))
        if isinstance(op, ast.Pow):
            if a.t == S and b.t == S and b.e[0] == 'c' and b.e[2].denominator == 1 and b.e[2] >= 0:
                return Sym(S, fold(('pow', S, a.e, int(b.e[2]))))
            self.err(n, "power: %s" % ast.unparse(n)[:80])
        if isinstance(op, ast.MatMult):
            if a.t == O and b.t == V:
                return Sym(V, ('app', V, a.e, b.e))
            self.err(n, "`@` of %s and %s: %s" % (a.t, b.t, ast.unparse(n)[:80]))
        self.err(n, "operator %s" % type(op).__name__)


def fold(t):
    """Fold scalar operations whose operands are all literal constants (1 / 2 -> 1/2).  No other
    simplification: the Coq side proves the algebra."""
    if t[1] != S:
        return t
    op = t[0]
    args = t[2:]
    if op in ('+', '-', '*', '/') and args[0][0] == 'c' and args[1][0] == 'c':
        a, b = args[0][2], args[1][2]
        if op == '/':
            if b == 0:
                raise TranslateError("literal division by zero")
            return ('c', S, a / b)
        return ('c', S, a + b if op == '+' else a - b if op == '-' else a * b)
    if op == 'neg' and args[0][0] == 'c':
        return ('c', S, -args[0][2])
    if op == 'pow' and args[0][0] == 'c':
        return ('c', S, args[0][2] ** args[1])
    return t


# ----------------------------------------------------------------------------------------
# reading the sources
# ----------------------------------------------------------------------------------------
def _class_methods(tree, cname, path):
    for node in tree.body:
        if isinstance(node, ast.ClassDef) and node.name == cname:
            res = {}
            for it in node.body:
                if isinstance(it, ast.FunctionDef):
                    is_setter = any(isinstance(d, ast.Attribute) and d.attr == "setter" for d in it.decorator_list)
                    if is_setter:
                        continue
                    if it.name in res:
                        raise TranslateError("%s: method %s defined twice in %s" % (path, it.name, cname))
                    res[it.name] = it
            return node, res
    raise TranslateError("%s: class %s not found" % (path, cname))


def read_algotype(repo):
    path = os.path.join(repo, SOLVERS)
    tree = ast.parse(open(path).read(), path)
    cls, meths = _class_methods(tree, "AlgoType", SOLVERS)
    members = []
    docs = {}
    body = cls.body
    for i, it in enumerate(body):
        if isinstance(it, ast.Assign) and len(it.targets) == 1 and isinstance(it.targets[0], ast.Name) \
                and isinstance(it.value, ast.Constant) and isinstance(it.value.value, str):
            name = it.targets[0].id
            members.append(name)
            if i + 1 < len(body) and isinstance(body[i + 1], ast.Expr) and isinstance(body[i + 1].value, ast.Constant) \
                    and isinstance(body[i + 1].value.value, str):
                docs[name] = body[i + 1].value.value
    lists = {}

    def static_list(fname):
        fn = meths.get(fname)
        if fn is None:
            raise TranslateError("%s: AlgoType.%s not found" % (SOLVERS, fname))
        env = {}
        for st in fn.body:
            if isinstance(st, ast.Expr) and isinstance(st.value, ast.Constant):
                continue
            if isinstance(st, ast.Assign) and len(st.targets) == 1 and isinstance(st.targets[0], ast.Name):
                env[st.targets[0].id] = lst(st.value, env)
                continue
            if isinstance(st, ast.Expr) and isinstance(st.value, ast.Call) and isinstance(st.value.func, ast.Attribute) \
                    and st.value.func.attr in ("append", "extend") and isinstance(st.value.func.value, ast.Name) \
                    and st.value.func.value.id in env and len(st.value.args) == 1:
                tgt = env[st.value.func.value.id]
                if st.value.func.attr == "append":
                    tgt.append(member(st.value.args[0]))
                else:
                    tgt.extend(lst(st.value.args[0], env))
                continue
            if isinstance(st, ast.Return):
                return lst(st.value, env)
            raise TranslateError("%s:%d: statement in AlgoType.%s" % (SOLVERS, st.lineno, fname))
        raise TranslateError("%s: AlgoType.%s has no return" % (SOLVERS, fname))

    def member(n):
        if isinstance(n, ast.Attribute) and isinstance(n.value, ast.Name) and n.value.id == "AlgoType" and n.attr in members:
            return n.attr
        raise TranslateError("%s:%d: not an AlgoType member: %s" % (SOLVERS, n.lineno, ast.unparse(n)))

    def lst(n, env):
        if isinstance(n, (ast.List, ast.Tuple)):
            return [member(e) for e in n.elts]
        if isinstance(n, ast.Name) and n.id in env:
            return list(env[n.id])
        if isinstance(n, ast.Call) and isinstance(n.func, ast.Attribute) and isinstance(n.func.value, ast.Name) \
                and n.func.value.id == "AlgoType" and not n.args:
            return list(static_list(n.func.attr))
        if isinstance(n, ast.BinOp) and isinstance(n.op, ast.Add):
            return lst(n.left, env) + lst(n.right, env)
        raise TranslateError("%s:%d: list expression %s" % (SOLVERS, n.lineno, ast.unparse(n)[:60]))

    for fname in ("Get_Hyperbolic_Types", "Get_Hyperbolic_and_Parabolic_Types"):
        lists[fname] = static_list(fname)
    return members, lists, docs


ALGOS = ["parabolic", "newmark", "hht", "hht_newmark", "midpoint", "euler_implicit", "euler_explicit"]


def read_schemes(repo):
    """-> dict(algos=[...], schemes={algo: {...trees...}}, members=[...], docs={...})"""
    members, lists, docs = read_algotype(repo)
    hyp = lists["Get_Hyperbolic_Types"]
    allt = lists["Get_Hyperbolic_and_Parabolic_Types"]
    time_algos = [m for m in members if m != "elliptic"]
    if sorted(time_algos) != sorted(ALGOS):
        raise TranslateError("%s: AlgoType members %s; the theorem files know %s" % (SOLVERS, time_algos, ALGOS))
    if sorted(allt) != sorted(ALGOS) or sorted(hyp) != sorted(a for a in ALGOS if a != "parabolic"):
        raise TranslateError("%s: Get_Hyperbolic_Types / Get_Hyperbolic_and_Parabolic_Types changed: %s / %s" % (SOLVERS, hyp, allt))
    path = os.path.join(repo, SIMU)
    tree = ast.parse(open(path).read(), path)
    _, meths = _class_methods(tree, "_Simu", SIMU)
    out = {}
    for algo in ALGOS:
        out[algo] = _one(meths, members, lists, algo)
    lines = {}
    for f in ("_Solver_Evaluate_u_v_a_for_time_scheme", "_Solver_Get_K_C_M_coefs_for_time_scheme",
              "_Solver_Apply_Neumann", "_Solver_Apply_Dirichlet", "_Solver_Update_solutions", "Solver_Set_Hyperbolic_Algorithm",
              "Solver_Set_Parabolic_Algorithm"):
        lines[f] = meths[f].lineno
    return {"algos": list(ALGOS), "schemes": out, "members": members, "docs": docs, "lines": lines}


def _vec(ip, v, what, allow_none=False):
    if v is None and allow_none:
        return None
    if not (isinstance(v, Sym) and v.t == V):
        raise TranslateError("%s [algo=%s]: %s is not a vector (%s)" % (SIMU, ip.algo, what, type(v).__name__ if not isinstance(v, Sym) else v.t))
    return v.e


def _scal(ip, v, what):
    if not (isinstance(v, Sym) and v.t == S):
        raise TranslateError("%s [algo=%s]: %s is not a scalar" % (SIMU, ip.algo, what))
    return v.e


def _one(meths, members, lists, algo, nonlinear=False):
    ip = Interp(meths, members, lists, algo, nonlinear)
    # 1. the setter, on symbolic parameters
    if algo == "parabolic":
        ip.call("Solver_Set_Parabolic_Algorithm", {"dt": atom("dt"), "alpha": atom("alpha")})
    else:
        ip.call("Solver_Set_Hyperbolic_Algorithm", {"dt": atom("dt"), "algo": Enum(algo), "beta": atom("beta"),
                                                    "gamma": atom("gamma"), "alpha": atom("alpha")})
    st_algo = ip.state.get("__algo")
    if not (isinstance(st_algo, Enum) and st_algo.name == algo):
        raise TranslateError("%s: the setter does not store the requested algorithm %s in self.__algo" % (SIMU, algo))
    res = {"asserts": list(ip.asserts)}
    if algo == "parabolic":
        stored = ip.call("__Solver_Get_Parabolic_Params", {})
        if not (isinstance(stored, tuple) and len(stored) == 2):
            raise TranslateError("%s: parabolic parameter tuple" % SIMU)
        res["stored"] = {"dt": _scal(ip, stored[0], "stored dt"), "alpha": _scal(ip, stored[1], "stored alpha")}
    else:
        stored = ip.call("__Solver_Get_Hyperbolic_Params", {})
        if not (isinstance(stored, tuple) and len(stored) == 4):
            raise TranslateError("%s: hyperbolic parameter tuple" % SIMU)
        res["stored"] = {k: _scal(ip, v, "stored " + k) for k, v in zip(("dt", "beta", "gamma", "alpha"), stored)}
    # From here on the schemes read the stored tuple.  To keep the generated definitions in terms
    # of the formal (dt, beta, gamma, alpha) -- the theorems substitute the stored values -- the
    # stored tuple is replaced by formal atoms for the four scheme methods.
    if algo == "parabolic":
        ip.state["__parabolicParams"] = (atom("dt"), atom("alpha"))
    else:
        ip.state["__hyperbolicParams"] = (atom("dt"), atom("beta"), atom("gamma"), atom("alpha"))
    ip.asserts = []
    # 2. evaluation-point states
    ev = ip.call("_Solver_Evaluate_u_v_a_for_time_scheme", {"u_np1": atom("x")})
    if not (isinstance(ev, tuple) and len(ev) == 3):
        raise TranslateError("%s [algo=%s]: _Solver_Evaluate_u_v_a_for_time_scheme does not return a 3-tuple" % (SIMU, algo))
    res["ev"] = [_vec(ip, ev[0], "u_t"), _vec(ip, ev[1], "v_t", True), _vec(ip, ev[2], "a_t", True)]
    # 3. coefficients
    cf = ip.call("_Solver_Get_K_C_M_coefs_for_time_scheme", {})
    if not (isinstance(cf, tuple) and len(cf) == 3):
        raise TranslateError("%s [algo=%s]: coefs tuple" % (SIMU, algo))
    res["coefs"] = [_scal(ip, c, "coef") for c in cf]
    # 4. right-hand side (linear path) and Newton path
    b = ip.call("_Solver_Apply_Neumann", {})
    res["rhs"] = _vec(ip, b, "b")
    if algo != "euler_explicit":
        ipn = Interp(meths, members, lists, algo, True)
        ipn.state.update({k: v for k, v in ip.state.items() if k != "__isNonLinear"})
        bn = ipn.call("_Solver_Apply_Neumann", {})
        res["rhs_newton"] = _vec(ipn, bn, "b (Newton path)")
    else:
        res["rhs_newton"] = None
    # 4b. the system operator built in _Solver_Apply_Dirichlet
    Ax = ip.call("_Solver_Apply_Dirichlet", {})
    if not (isinstance(Ax, tuple) and len(Ax) == 2 and isinstance(Ax[0], Sym) and Ax[0].t == O):
        raise TranslateError("%s [algo=%s]: _Solver_Apply_Dirichlet does not return (operator, x)" % (SIMU, algo))
    res["sysop"] = Ax[0].e
    # 5. corrector
    up = ip.call("_Solver_Update_solutions", {"u_np1": atom("x")})
    if not (isinstance(up, tuple) and len(up) == 3):
        raise TranslateError("%s [algo=%s]: _Solver_Update_solutions does not return a 3-tuple" % (SIMU, algo))
    res["up"] = [_vec(ip, up[0], "u_np1"), _vec(ip, up[1], "v_np1", True), _vec(ip, up[2], "a_np1", True)]
    return res


# ----------------------------------------------------------------------------------------
# exact evaluation (python Fractions) of the translated trees
# ----------------------------------------------------------------------------------------
def ev(t, env):
    """env: name -> Fraction | list[Fraction] (vector) | list[list[Fraction]] (matrix)."""
    op, ty = t[0], t[1]
    if op == 'c':
        return t[2]
    if op == 'v':
        return env[t[2]]
    if op == 'app':
        A, v = ev(t[2], env), ev(t[3], env)
        return [sum((a * b for a, b in zip(row, v)), Fraction(0)) for row in A]
    if op == 'neg':
        return _map1(ty, lambda a: -a, ev(t[2], env))
    if op in ('+', '-'):
        f = (lambda a, b: a + b) if op == '+' else (lambda a, b: a - b)
        return _map2(ty, f, ev(t[2], env), ev(t[3], env))
    if op == '*':
        return ev(t[2], env) * ev(t[3], env)
    if op == '/':
        d = ev(t[3], env)
        if d == 0:
            raise ZeroDivisionError
        return ev(t[2], env) / d
    if op == 'pow':
        return ev(t[2], env) ** t[3]
    if op == 'smul':
        s = ev(t[2], env)
        return _map1(ty, lambda a: s * a, ev(t[3], env))
    if op == 'sdiv':
        s = ev(t[3], env)
        if s == 0:
            raise ZeroDivisionError
        return _map1(ty, lambda a: a / s, ev(t[2], env))
    raise TranslateError("ev: " + op)


def _map1(ty, f, a):
    if ty == S:
        return f(a)
    if ty == V:
        return [f(x) for x in a]
    return [[f(x) for x in r] for r in a]


def _map2(ty, f, a, b):
    if ty == S:
        return f(a, b)
    if ty == V:
        return [f(x, y) for x, y in zip(a, b)]
    return [[f(x, y) for x, y in zip(r, s)] for r, s in zip(a, b)]


def ev_prop(p, env):
    if p[0] == 'true':
        return True
    if p[0] == 'and':
        return ev_prop(p[1], env) and ev_prop(p[2], env)
    a, b = ev(p[2], env), ev(p[3], env)
    return {"<": a < b, "<=": a <= b, ">": a > b, ">=": a >= b, "=": a == b, "<>": a != b}[p[1]]


def atoms(t, acc=None):
    acc = set() if acc is None else acc
    if t is None:
        return acc
    if t[0] == 'v':
        acc.add(t[2])
    elif t[0] not in ('c',):
        for a in t[2:]:
            if isinstance(a, tuple):
                atoms(a, acc)
    return acc


# ----------------------------------------------------------------------------------------
# printing
# ----------------------------------------------------------------------------------------
def show(t):
    """Readable infix text (evidence / messages)."""
    if t is None:
        return "None"
    op = t[0]
    if op == 'c':
        return str(t[2])
    if op == 'v':
        return t[2]
    if op == 'neg':
        return "-(%s)" % show(t[2])
    if op in ('+', '-', '*', '/'):
        return "(%s %s %s)" % (show(t[2]), op, show(t[3]))
    if op == 'pow':
        return "%s^%d" % (show(t[2]), t[3])
    if op == 'smul':
        return "%s*%s" % (show(t[2]), show(t[3]))
    if op == 'sdiv':
        return "%s/%s" % (show(t[2]), show(t[3]))
    if op == 'app':
        return "%s@%s" % (show(t[2]), show(t[3]))
    return "?"


def coq(t):
    op, ty = t[0], t[1]
    if op == 'c':
        fr = t[2]
        n, d = fr.numerator, fr.denominator
        s = str(n) if n >= 0 else "(-%d)" % (-n)
        return s if d == 1 else "(%s/%d)" % (s, d)
    if op == 'v':
        return t[2]
    pre = {S: "", V: "v", O: "o"}[ty]
    if op == 'app':
        return "(%s %s)" % (coq(t[2]), coq(t[3]))
    if ty == S:
        if op == 'neg':
            return "(- %s)" % coq(t[2])
        if op == 'pow':
            return "(%s ^ %d)" % (coq(t[2]), t[3])
        return "(%s %s %s)" % (coq(t[2]), op, coq(t[3]))
    if op == 'neg':
        return "(%sopp %s)" % (pre, coq(t[2]))
    if op == '+':
        return "(%sadd %s %s)" % (pre, coq(t[2]), coq(t[3]))
    if op == '-':
        return "(%ssub %s %s)" % (pre, coq(t[2]), coq(t[3]))
    if op == 'smul':
        return "(%sscal %s %s)" % (pre, coq(t[2]), coq(t[3]))
    if op == 'sdiv':
        return "(%sdivs %s %s)" % (pre, coq(t[2]), coq(t[3]))
    raise TranslateError("coq: %s/%s" % (op, ty))


def coq_prop(p):
    if p[0] == 'true':
        return "True"
    if p[0] == 'and':
        return "(%s /\\ %s)" % (coq_prop(p[1]), coq_prop(p[2]))
    return "(%s %s %s)" % (coq(p[2]), p[1], coq(p[3]))


SIG_S = "(dt beta gamma alpha : R)"
SIG_V = "(u_n v_n a_n x bN F : I -> R)"
SIG_O = "(I : Type) (K C M : (I -> R) -> (I -> R))"


def emit_coq(T):
    """Gen_TimeSchemes.v: every definition has the same fixed signature so that the static theorem
    files do not depend on which names a branch happens to use."""
    L = ["(* GENERATED by translator/timeschemes.py from EasyFEA/Simulations/_simu.py -- do not edit *)",
         "From Coq Require Import Reals.",
         "From EFLib Require Import C05_VecSpace.",
         "Local Open Scope R_scope.",
         ""]

    names = []

    def dfn(name, ret, body):
        names.append(name)
        L.append("Definition %s %s %s %s : %s :=\n  %s." % (name, SIG_O, SIG_S, SIG_V, ret, body))

    for a in T["algos"]:
        r = T["schemes"][a]
        L.append("(* ---------------- %s ---------------- *)" % a)
        p = ('true',)
        for q in r["asserts"]:
            p = q if p == ('true',) else ('and', p, q)
        dfn(a + "_admissible", "Prop", coq_prop(p))
        for k in ("dt", "beta", "gamma", "alpha"):
            if k in r["stored"]:
                dfn("%s_stored_%s" % (a, k), "R", coq(r["stored"][k]))
        for nm, t in zip(("ut", "vt", "at"), r["ev"]):
            dfn("%s_ev_%s_none" % (a, nm), "bool", "true" if t is None else "false")
            dfn("%s_ev_%s" % (a, nm), "I -> R", "vzero" if t is None else coq(t))
        for nm, t in zip(("coefK", "coefC", "coefM"), r["coefs"]):
            dfn("%s_%s" % (a, nm), "R", coq(t))
        dfn(a + "_sysop", "(I -> R) -> (I -> R)", coq(r["sysop"]))
        dfn(a + "_rhs", "I -> R", coq(r["rhs"]))
        if r["rhs_newton"] is not None:
            dfn(a + "_rhs_newton", "I -> R", coq(r["rhs_newton"]))
        for nm, t in zip(("u", "v", "a"), r["up"]):
            dfn("%s_up_%s_none" % (a, nm), "bool", "true" if t is None else "false")
            dfn("%s_up_%s" % (a, nm), "I -> R", "vzero" if t is None else coq(t))
        L.append("")
    L.append("#[export] Hint Unfold %s : c05gen." % " ".join(names))
    return "\n".join(L) + "\n"


if __name__ == "__main__":
    import sys
    T = read_schemes(sys.argv[1] if len(sys.argv) > 1 else "/repo")
    for a in T["algos"]:
        r = T["schemes"][a]
        print("==", a)
        print("  stored", {k: show(v) for k, v in r["stored"].items()})
        print("  asserts", [coq_prop(p) for p in r["asserts"]])
        print("  ev", [show(t) for t in r["ev"]])
        print("  coefs", [show(t) for t in r["coefs"]])
        print("  sysop", show(r["sysop"]))
        print("  rhs", show(r["rhs"]))
        print("  rhs_newton", show(r["rhs_newton"]))
        print("  up", [show(t) for t in r["up"]])
