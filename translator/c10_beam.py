"""C10: translate the beam local frame (`_Beam._Calc_P`, EasyFEA/Models/Beam/_beam.py) and the way
the local-to-global matrix is laid out in blocks and applied to N and B
(`_EulerBernoulli._Compute_P_e_pg` and every `X = X @ P_e_pg` site of EasyFEA/FEM/Elems/_beam.py).
Pure ast, fail-closed."""
import ast
import os
from . import c11_sym as S
from .c11_sym import TranslateError, Arr, Opaque

REL_MODEL = "EasyFEA/Models/Beam/_beam.py"
REL_ELEM = "EasyFEA/FEM/Elems/_beam.py"


def _norm(src):
    return "".join(src.split())


def read_beam(repo):
    out = {"files": [REL_MODEL, REL_ELEM]}
    # ---- _Calc_P ---------------------------------------------------------------------------
    mod = S.Module(os.path.join(repo, REL_MODEL))
    meths, _, _ = S.class_members(mod.cls("_Beam"))
    if "_Calc_P" not in meths:
        raise TranslateError("_Beam._Calc_P not found")
    fn = meths["_Calc_P"]
    out["calcP_line"] = fn.lineno
    i = Arr([('v', "i%d" % (k + 1)) for k in range(3)])
    j = Arr([('v', "j%d" % (k + 1)) for k in range(3)])

    def selfattr(name, raw):
        if name == "line":
            return {"unitVector": i}
        if name == "xAxis":
            return i
        if name == "yAxis":
            return j
        return Opaque("self.%s" % name)
    it = S.Interp("_Beam._Calc_P", selfobj=selfattr, mangled_cls="_Beam")

    def normalize(args, kw):
        v = args[0]
        if not (isinstance(v, Arr) and v.shape == (3,)):
            return Opaque("Normalize of a non-vector")
        return Arr([S.mk('/', x, ('v', 'nk')) for x in v.data])     # nk = |i x j|
    it.calls["Normalize"] = normalize
    r = it.run(fn, {})
    S.need(r, it.where)
    if not (isinstance(r, Arr) and r.shape == (3, 3)):
        raise TranslateError("_Calc_P does not return a 3x3 array")
    out["P"] = [[S.as_tree(x) for x in row] for row in r.data]
    # ---- _Compute_P_e_pg: block layout --------------------------------------------------------
    emod = S.Module(os.path.join(repo, REL_ELEM))
    em, _, _ = S.class_members(emod.cls("_EulerBernoulli"))
    if "_Compute_P_e_pg" not in em:
        raise TranslateError("_EulerBernoulli._Compute_P_e_pg not found")
    fn = em["_Compute_P_e_pg"]
    out["blocks_line"] = fn.lineno
    src = {}
    block_assign = None
    loop = None
    for st in ast.walk(fn):
        if isinstance(st, ast.Assign) and len(st.targets) == 1 and isinstance(st.targets[0], ast.Name):
            src[st.targets[0].id] = _norm(ast.unparse(st.value))
        if isinstance(st, ast.For):
            for b in st.body:
                if isinstance(b, ast.Assign) and isinstance(b.targets[0], ast.Subscript) and _norm(ast.unparse(b.targets[0])).startswith("P_e_pg["):
                    block_assign, loop = b, st
    if block_assign is None:
        raise TranslateError("_Compute_P_e_pg: block assignment `P_e_pg[...] = P[...]` inside a loop not found")
    if not isinstance(loop.target, ast.Name) or _norm(ast.unparse(loop.iter)) != "range(dof_n*nPe//3)":
        raise TranslateError("_Compute_P_e_pg: loop over the 3x3 blocks not recognised")
    n = loop.target.id
    tsl = block_assign.targets[0].slice
    tel = tsl.elts if isinstance(tsl, ast.Tuple) else []
    if len(tel) != 4 or _norm(ast.unparse(tel[0])) != ":" or _norm(ast.unparse(tel[1])) != "0":
        raise TranslateError("_Compute_P_e_pg: block target `%s` not recognised" % ast.unparse(block_assign.targets[0]))

    def shifted(e):       # <name> + n * <Nname>
        if isinstance(e, ast.BinOp) and isinstance(e.op, ast.Add) and isinstance(e.left, ast.Name) and isinstance(e.right, ast.BinOp) \
                and isinstance(e.right.op, ast.Mult) and {type(e.right.left), type(e.right.right)} == {ast.Name}:
            names = {e.right.left.id, e.right.right.id}
            if n in names and len(names) == 2:
                return e.left.id, (names - {n}).pop()
        raise TranslateError("_Compute_P_e_pg: block index `%s` is not <index vector> + %s * N" % (ast.unparse(e), n))
    (tA, N1), (tB, N2) = shifted(tel[2]), shifted(tel[3])
    if N1 != N2 or src.get(N1) not in ("P.shape[-1]", "3"):
        raise TranslateError("_Compute_P_e_pg: block size is not P.shape[-1]")
    kinds = {}
    for nm in (tA, tB):
        d = src.get(nm)
        if d == "np.repeat(range(%s),%s)" % (N1, N1):
            kinds[nm] = "row"
        elif d == "np.array(list(range(%s))*%s)" % (N1, N1):
            kinds[nm] = "col"
        else:
            raise TranslateError("_Compute_P_e_pg: index vector %s = %s is not a row-major enumeration of the block" % (nm, d))
    if sorted(kinds.values()) != ["col", "row"]:
        raise TranslateError("_Compute_P_e_pg: the two index vectors do not enumerate (row, column) pairs")
    v = block_assign.value
    swapped_src = False
    if not isinstance(v, ast.Subscript):
        raise TranslateError("_Compute_P_e_pg: block value `%s` not recognised" % ast.unparse(v))
    base = _norm(ast.unparse(v.value))
    if base in ("P.transpose(0,2,1)", "P.transpose((0,2,1))", "np.transpose(P,(0,2,1))", "np.swapaxes(P,1,2)", "np.swapaxes(P,-1,-2)", "np.swapaxes(P,-2,-1)"):
        swapped_src = True
    elif base != "P":
        raise TranslateError("_Compute_P_e_pg: block value `%s` not recognised" % ast.unparse(v))
    vel = v.slice.elts if isinstance(v.slice, ast.Tuple) else []
    if len(vel) != 3 or _norm(ast.unparse(vel[0])) != ":" or not all(isinstance(e, ast.Name) for e in vel[1:]):
        raise TranslateError("_Compute_P_e_pg: block value `%s` not recognised" % ast.unparse(v))
    vA, vB = vel[1].id, vel[2].id
    if (vA, vB) == (tA, tB):
        tr_ = False
    elif (vA, vB) == (tB, tA):
        tr_ = True
    else:
        raise TranslateError("_Compute_P_e_pg: block value indices (%s, %s) are not the target's index vectors" % (vA, vB))
    out["block_transposed"] = tr_ != swapped_src
    if "beam._Calc_P()" not in src.get("P", "") and not any(
            isinstance(s2, ast.Assign) and "beam._Calc_P()" in _norm(ast.unparse(s2.value)) for s2 in ast.walk(fn)):
        raise TranslateError("_Compute_P_e_pg: P is not filled from beam._Calc_P()")
    # ---- application sites -------------------------------------------------------------------
    sites = []
    for cname in ("_EulerBernoulli", "_Timoshenko"):
        cm, _, _ = S.class_members(emod.cls(cname))
        for mname, m in cm.items():
            bound = set()
            for st in ast.walk(m):
                if isinstance(st, ast.Assign) and isinstance(st.value, ast.Call) and _norm(ast.unparse(st.value.func)) == "self._Compute_P_e_pg":
                    bound |= {t.id for t in st.targets if isinstance(t, ast.Name)}
            for st in ast.walk(m):
                for nm in ast.walk(st) if isinstance(st, ast.Assign) else []:
                    if isinstance(nm, ast.BinOp) and isinstance(nm.op, ast.MatMult):
                        l, r_ = nm.left, nm.right
                        if isinstance(r_, ast.Name) and r_.id in bound:
                            if not (isinstance(l, ast.Name) and isinstance(st.targets[0], ast.Name) and st.targets[0].id == l.id and st.value is nm):
                                raise TranslateError("%s.%s: `%s` is not of the form X = X @ P_e_pg" % (cname, mname, ast.unparse(st)))
                            sites.append("%s.%s:%d %s" % (cname, mname, st.lineno, ast.unparse(st)))
                        elif isinstance(l, ast.Name) and l.id in bound:
                            raise TranslateError("%s.%s: P_e_pg used as a left factor: %s" % (cname, mname, ast.unparse(st)))
            for st in ast.walk(m):
                if isinstance(st, ast.Name) and st.id in bound and isinstance(st.ctx, ast.Load):
                    pass
    if len(sites) < 4:
        raise TranslateError("only %d application sites of P_e_pg found: %s" % (len(sites), sites))
    out["sites"] = sites
    return out


def emit_coq(b):
    L = ["(* GENERATED from %s and %s by translator/c10_beam.py — do not edit *)" % tuple(b["files"]),
         "From Coq Require Import Reals List.", "From EFLib Require Import C11_MatR.",
         "Import ListNotations.", "Open Scope R_scope.", "",
         "(* _Beam._Calc_P: columns = local axes i (fiber), j (yAxis), k = Normalize(i x j); nk = |i x j| *)",
         "Definition beam_P (i1 i2 i3 j1 j2 j3 nk : R) : mat :=\n  %s." % S.coq_mat(b["P"]),
         "(* _Compute_P_e_pg: every 3x3 diagonal block of P_e_pg is %s *)" % ("P^T" if b["block_transposed"] else "P"),
         "Definition beam_blk (P : mat) : mat := %s." % ("mtrans 3 P" if b["block_transposed"] else "P"),
         "(* applied on the right at: *)"]
    L += ["(*   %s *)" % s.replace("*)", "* )") for s in b["sites"]]
    return "\n".join(L) + "\n"
