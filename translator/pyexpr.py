"""Fail-closed translation of Python arithmetic expressions (ast) to polynomial expression
trees over exact rationals.

Internal tree: ('c', Fraction) | ('x', i) (1-based variable) | ('+',a,b) | ('-',a,b) |
('*',a,b) | ('neg',a) | ('pow',a,n).  Constants are converted from the literal's shortest
repr (so 0.6 is 3/5 and 0.445948490915965 is that decimal exactly); `a / b` is accepted only
when b folds to a non-zero constant."""
import ast
from fractions import Fraction


class TranslateError(Exception):
    pass


def const_of(node_value):
    if isinstance(node_value, bool):
        raise TranslateError("bool constant")
    if isinstance(node_value, int):
        return Fraction(node_value)
    if isinstance(node_value, float):
        return Fraction(repr(node_value))
    raise TranslateError("unsupported constant %r" % (node_value,))


def fold(t):
    """Constant value of tree t, or None."""
    k = t[0]
    if k == 'c':
        return t[1]
    if k == 'x':
        return None
    if k == 'neg':
        a = fold(t[1])
        return None if a is None else -a
    if k == 'pow':
        a = fold(t[1])
        return None if a is None else a ** t[2]
    a, b = fold(t[1]), fold(t[2])
    if a is None or b is None:
        return None
    return {'+': a + b, '-': a - b, '*': a * b}[k]


def to_tree(node, args, env=None, where=""):
    """node: ast expression; args: list of variable names (index+1 = PEX index);
    env: name -> tree for constants bound earlier."""
    env = env or {}

    def rec(n):
        if isinstance(n, ast.Constant):
            return ('c', const_of(n.value))
        if isinstance(n, ast.Name):
            if n.id in args:
                return ('x', args.index(n.id) + 1)
            if n.id in env:
                return env[n.id]
            raise TranslateError("%s: unbound name %s" % (where, n.id))
        if isinstance(n, ast.UnaryOp):
            if isinstance(n.op, ast.USub):
                return ('neg', rec(n.operand))
            if isinstance(n.op, ast.UAdd):
                return rec(n.operand)
            raise TranslateError("%s: unary %s" % (where, type(n.op).__name__))
        if isinstance(n, ast.BinOp):
            if isinstance(n.op, ast.Add):
                return ('+', rec(n.left), rec(n.right))
            if isinstance(n.op, ast.Sub):
                return ('-', rec(n.left), rec(n.right))
            if isinstance(n.op, ast.Mult):
                return ('*', rec(n.left), rec(n.right))
            if isinstance(n.op, ast.Div):
                r = rec(n.right)
                c = fold(r)
                if c is None or c == 0:
                    raise TranslateError("%s: division by a non-constant or zero: %s" % (where, ast.unparse(n.right)))
                return ('*', rec(n.left), ('c', 1 / c))
            if isinstance(n.op, ast.Pow):
                e = n.right
                if isinstance(e, ast.Constant) and isinstance(e.value, int) and not isinstance(e.value, bool) and e.value >= 0:
                    return ('pow', rec(n.left), e.value)
                raise TranslateError("%s: exponent %s" % (where, ast.unparse(e)))
            raise TranslateError("%s: operator %s" % (where, type(n.op).__name__))
        raise TranslateError("%s: expression %s (%s)" % (where, type(n).__name__, ast.unparse(n)[:60]))
    return rec(node)


def lambda_tree(lam, nargs=None, env=None, where=""):
    if not isinstance(lam, ast.Lambda):
        raise TranslateError("%s: expected a lambda, got %s" % (where, type(lam).__name__))
    a = lam.args
    if a.vararg or a.kwarg or a.kwonlyargs or a.defaults or a.posonlyargs:
        raise TranslateError("%s: lambda signature" % where)
    names = [x.arg for x in a.args]
    if nargs is not None and len(names) != nargs:
        raise TranslateError("%s: lambda takes %d args, expected %d" % (where, len(names), nargs))
    return to_tree(lam.body, names, env, where)


def ev(t, pt):
    """Exact evaluation with Fractions; pt is a list of Fractions."""
    k = t[0]
    if k == 'c':
        return t[1]
    if k == 'x':
        return pt[t[1] - 1]
    if k == 'neg':
        return -ev(t[1], pt)
    if k == 'pow':
        return ev(t[1], pt) ** t[2]
    a, b = ev(t[1], pt), ev(t[2], pt)
    return a + b if k == '+' else a - b if k == '-' else a * b


def qlit(fr):
    n, d = fr.numerator, fr.denominator
    return "((-%d)#%d)" % (-n, d) if n < 0 else "(%d#%d)" % (n, d)


def coq(t):
    """Coq text of a PExpr Q (to be read inside %Q scope-free context: literals are n#d)."""
    k = t[0]
    if k == 'c':
        return "(PEc %s)" % qlit(t[1])
    if k == 'x':
        return "(PEX Q %d)" % t[1]
    if k == 'neg':
        return "(PEopp %s)" % coq(t[1])
    if k == 'pow':
        return "(PEpow %s %d)" % (coq(t[1]), t[2])
    op = {'+': 'PEadd', '-': 'PEsub', '*': 'PEmul'}[k]
    return "(%s %s %s)" % (op, coq(t[1]), coq(t[2]))


def deriv(t, i):
    """Formal derivative (python side, used by searches only)."""
    k = t[0]
    if k == 'c':
        return ('c', Fraction(0))
    if k == 'x':
        return ('c', Fraction(1 if t[1] == i else 0))
    if k == 'neg':
        return ('neg', deriv(t[1], i))
    if k == 'pow':
        if t[2] == 0:
            return ('c', Fraction(0))
        return ('*', ('*', ('c', Fraction(t[2])), ('pow', t[1], t[2] - 1)), deriv(t[1], i))
    if k in '+-':
        return (k, deriv(t[1], i), deriv(t[2], i))
    return ('+', ('*', deriv(t[1], i), t[2]), ('*', t[1], deriv(t[2], i)))
